//! C17 correspondence: real WeightedSampler / DiversityEnforcer / WeightedPlacementStrategy /
//! PlacementEngine vs Model/Placement.v.
//!
//! The sampler's random draws are reproduced by seeding fastrand's (thread-local) global
//! generator with the same seed before the call and again afterwards; everything runs on
//! the main thread.  Rust's `powf` results (keys u^(1/w), score^exponent) and the real
//! `distance_km` values are handed to the model as tables - the model does not re-implement
//! libm.  Every call into the library runs under catch_unwind: a panic is a violation.
use saorsa_core::adaptive::{performance::PerformanceMonitor, trust::EigenTrustEngine, NodeId};
use saorsa_core::placement::*;
use serde_json::json;
use std::collections::{HashMap, HashSet};
use std::panic::{catch_unwind, AssertUnwindSafe};
use std::time::Duration;
use vh::*;

const HEADER: &str = "From Coq Require Import Floats.\nFrom SV Require Import Lib.Base Model.Placement.\nLocal Open Scope N_scope.";

// ---------------------------------------------------------------- Coq printing
fn cf(x: f64) -> String {
    if x.is_nan() { return "nan".into(); }
    if x.is_infinite() { return if x > 0.0 { "infinity".into() } else { "neg_infinity".into() }; }
    let bits = x.to_bits();
    let neg = bits >> 63 == 1;
    let e = ((bits >> 52) & 0x7ff) as i64;
    let m = bits & ((1u64 << 52) - 1);
    let body = if e == 0 {
        if m == 0 { "0x0p+0".to_string() } else { format!("0x0.{:013x}p-1022", m) }
    } else {
        format!("0x1.{:013x}p{:+}", m, e - 1023)
    };
    if neg { format!("(-{})%float", body) } else { format!("({})%float", body) }
}
fn jf(x: f64) -> serde_json::Value { json!(format!("{:e}", x)) }

#[derive(Clone, Debug, PartialEq)]
enum Obs { Ok(Vec<u64>), Err(&'static str), Panic }
fn coq_obs(o: &Obs) -> String {
    match o {
        Obs::Ok(v) => format!("(Ok {})", coq_list(v.iter().map(|x| x.to_string()))),
        Obs::Err(e) => format!("(Err {})", e),
        Obs::Panic => "Panic".into(),
    }
}
fn coq_obs_unit(o: &Obs) -> String {
    match o { Obs::Ok(_) => "(Ok tt)".into(), Obs::Err(e) => format!("(Err {})", e), Obs::Panic => "Panic".into() }
}
fn err_kind(e: &PlacementError) -> &'static str {
    match e {
        PlacementError::InsufficientNodes { .. } => "EInsufficient",
        PlacementError::InvalidWeight { .. } => "EInvalidWeight",
        PlacementError::NodeMetadataNotFound(_) => "EMetadata",
        PlacementError::DiversityViolation { constraint, .. } => match constraint.as_str() {
            "geographic_distance" => "EDivGeo",
            "region_distribution" => "EDivRegion",
            "asn_distribution" => "EDivAsn",
            _ => "EOther",
        },
        PlacementError::InvalidReplicationFactor(_) => "EInvalidRF",
        PlacementError::ByzantineToleranceViolation { .. } => "EBft",
        PlacementError::ReliabilityTooLow { .. } => "EReliability",
        _ => "EOther",
    }
}
fn obs_tag(o: &Obs) -> String { match o { Obs::Ok(_) => "ok".into(), Obs::Err(e) => format!("err:{}", e), Obs::Panic => "panic".into() } }

const REGIONS: [NetworkRegion; 8] = [NetworkRegion::NorthAmerica, NetworkRegion::SouthAmerica, NetworkRegion::Europe,
    NetworkRegion::AsiaPacific, NetworkRegion::Africa, NetworkRegion::MiddleEast, NetworkRegion::Oceania, NetworkRegion::Unknown];

fn node_id(i: usize, salt: u64) -> NodeId {
    let mut b = [0u8; 32];
    b[0] = (i >> 8) as u8; b[1] = i as u8;
    b[8..16].copy_from_slice(&salt.to_le_bytes());
    NodeId::from_bytes(b)
}
fn idx_of(id: &NodeId) -> u64 { let b = id.as_bytes(); ((b[0] as u64) << 8) | b[1] as u64 }

// ---------------------------------------------------------------- generators
fn degenerate(rng: &mut Rng) -> f64 {
    match rng.below(12) {
        0 => 0.0, 1 => -0.0, 2 => -1.0, 3 => f64::INFINITY, 4 => f64::NEG_INFINITY, 5 | 6 => f64::NAN,
        7 => f64::from_bits(1), 8 => 1e-300, 9 => 1e308, 10 => f64::MIN_POSITIVE, _ => -1e-320,
    }
}
fn unit(rng: &mut Rng) -> f64 { (rng.next() >> 11) as f64 / (1u64 << 53) as f64 }

/// latitude offset (degrees) from `base` along the meridian giving (about) `km`; then, by
/// bisection over the real distance_km, the closest representable latitude - returns the
/// location and its real distance
fn at_distance(base: &GeographicLocation, km: f64) -> (GeographicLocation, f64) {
    let (mut lo, mut hi) = (0.0f64, 5.0f64);
    for _ in 0..200 {
        let mid = (lo + hi) / 2.0;
        if mid == lo || mid == hi { break; }
        let l = GeographicLocation::new(base.latitude + mid, base.longitude).unwrap();
        let d = base.distance_km(&l);
        if d == km { return (l, d); }
        if d < km { lo = mid } else { hi = mid }
    }
    // scan a few neighbours for an exact hit
    let mut best = GeographicLocation::new(base.latitude + hi, base.longitude).unwrap();
    let mut x = lo;
    for _ in 0..64 {
        let l = GeographicLocation::new(base.latitude + x, base.longitude).unwrap();
        let d = base.distance_km(&l);
        if d == km { return (l, d); }
        if d >= km { best = l; break; }
        x = f64::from_bits(x.to_bits() + 1);
    }
    let d = base.distance_km(&best);
    (best, d)
}

struct Geo { bases: Vec<GeographicLocation> }
impl Geo {
    fn new() -> Geo {
        let pts = [(40.7128, -74.0060), (34.0522, -118.2437), (51.5074, -0.1278), (35.6762, 139.6503), (-33.8688, 151.2093),
                   (-23.5505, -46.6333), (30.0444, 31.2357), (25.2048, 55.2708), (64.1466, -21.9426), (1.3521, 103.8198),
                   (55.7558, 37.6173), (19.4326, -99.1332), (-1.2921, 36.8219), (28.6139, 77.2090), (-41.2866, 174.7756), (61.2181, -149.9003)];
        Geo { bases: pts.iter().map(|(a, b)| GeographicLocation::new(*a, *b).unwrap()).collect() }
    }
    /// a location; `tight` raises the share of near-threshold neighbours of the bases
    fn pick(&self, rng: &mut Rng, tight: bool) -> GeographicLocation {
        let b = *rng.pick(&self.bases);
        let roll = rng.below(if tight { 10 } else { 30 });
        match roll {
            0 => b,
            1 => at_distance(&b, 50.0).0,
            2 => at_distance(&b, 49.999).0,
            3 => at_distance(&b, 50.001).0,
            4 => at_distance(&b, 100.0).0,
            5 => at_distance(&b, 99.999).0,
            6 => at_distance(&b, 100.001).0,
            7 => GeographicLocation::new(-b.latitude, if b.longitude > 0.0 { b.longitude - 180.0 } else { b.longitude + 180.0 }).unwrap(), // antipode
            8 => GeographicLocation::new(if rng.chance(1, 2) { 90.0 } else { -90.0 }, unit(rng) * 360.0 - 180.0).unwrap(),
            9 => GeographicLocation::new(b.latitude + unit(rng) * 2.0 - 1.0, b.longitude + unit(rng) * 2.0 - 1.0).unwrap_or(b),
            _ => GeographicLocation::new(unit(rng) * 180.0 - 90.0, unit(rng) * 360.0 - 180.0).unwrap(),
        }
    }
}

fn seeded_draws(seed: u64, n: usize) -> Vec<f64> {
    fastrand::seed(seed);
    (0..n).map(|_| fastrand::f64()).collect()
}

// ---------------------------------------------------------------- sampler cases
fn sampler_case(rng: &mut Rng, sum: &mut Summary, id: u64, w: &mut CaseWriter, forced: Option<(usize, usize, bool)>) -> bool {
    let n = match forced { Some((n, _, _)) => n, None => match rng.below(16) { 0 => 0, 1 => 1, 2 => 20, 3 => 21, 4 => 22, 5 => 60, 6 => 59, 7 | 8 => rng.below(61) as usize, _ => rng.below(26) as usize } };
    let k = match forced { Some((_, k, _)) => k, None => match rng.below(10) { 0 => 0, 1 => 1, 2 => n, 3 => n + 1, 4 => n.saturating_sub(1), _ => rng.below(21) as usize } };
    let degen = match forced { Some((_, _, d)) => d, None => rng.chance(1, 3) };
    let dup_ids = forced.is_none() && rng.chance(1, 12);
    let salt = rng.next();
    let mut cands: Vec<(NodeId, f64)> = (0..n).map(|i| {
        let wgt = match rng.below(8) { 0 => 1.0, 1 => 0.5, 2 => 2.0, 3 => 1e-3, _ => 0.05 + unit(rng) * 3.0 };
        (node_id(i, salt), wgt)
    }).collect();
    if degen && n > 0 {
        let cnt = 1 + rng.below(3) as usize;
        for _ in 0..cnt { let j = rng.below(n as u64) as usize; cands[j].1 = degenerate(rng); }
    }
    if dup_ids && n > 1 { let j = rng.below(n as u64) as usize; let i = rng.below(n as u64) as usize; cands[j].0 = cands[i].0.clone(); }
    // equal weights + a tie of keys can only come from equal draws; force some exact key ties through extreme weights
    if forced.is_none() && rng.chance(1, 15) && n > 2 { for j in 0..n.min(4) { cands[j].1 = f64::from_bits(1); } }
    let seed = rng.next();
    let mut sampler = WeightedSampler::new();
    fastrand::seed(seed);
    let r = catch_unwind(AssertUnwindSafe(|| sampler.sample_nodes(&cands, k)));
    let obs = match r { Ok(Ok(v)) => Obs::Ok(v.iter().map(idx_of).collect()), Ok(Err(e)) => Obs::Err(err_kind(&e)), Err(_) => Obs::Panic };
    let draws = seeded_draws(seed, n);
    let keys: Vec<f64> = draws.iter().zip(cands.iter()).map(|(u, (_, wgt))| u.powf(1.0 / wgt)).collect();
    let has_nan = cands.iter().any(|c| c.1.is_nan());
    let has_bad = cands.iter().any(|c| c.1.is_nan() || c.1 <= 0.0);
    let detail = json!({"kind": "sampler", "n": n, "k": k, "fastrand_seed": seed.to_string(),
        "weights": cands.iter().map(|c| jf(c.1)).collect::<Vec<_>>(), "ids": cands.iter().map(|c| idx_of(&c.0)).collect::<Vec<_>>(),
        "observed": obs_tag(&obs), "selected": match &obs { Obs::Ok(v) => json!(v), _ => json!(null) }});
    if obs == Obs::Panic {
        sum.violation(id, "WeightedSampler::sample_nodes panicked", &[], detail.clone());
    }
    if let Obs::Ok(v) = &obs {
        if v.len() != k { sum.violation(id, "sample_nodes returned Ok with a number of nodes different from k", &[], detail.clone()); }
        if k > 0 && has_bad { sum.violation(id, "sample_nodes returned Ok although a candidate weight is zero, negative or NaN", &[], detail.clone()); }
    }
    sum.count(&format!("sampler:{}", obs_tag(&obs)));
    if has_nan { sum.count("sampler:input_has_nan_weight"); }
    if n >= 21 && has_nan { sum.count("sampler:nan_weight_and_21+_candidates"); }
    if keys.iter().enumerate().any(|(i, a)| keys.iter().skip(i + 1).any(|b| a == b)) { sum.count("sampler:key_ties"); }
    let term = format!("({}, {}, {}, {}, {})",
        coq_list(cands.iter().map(|c| format!("({}, {})", idx_of(&c.0), cf(c.1)))), k,
        coq_list(draws.iter().map(|u| cf(*u))), coq_list(keys.iter().map(|x| cf(*x))), coq_obs(&obs));
    w.push(id, term);
    sum.case(id, detail);
    matches!(obs, Obs::Ok(ref v) if !v.is_empty())
}

// ---------------------------------------------------------------- diversity cases
type SelEntry = (NodeId, GeographicLocation, u32, NetworkRegion);
fn diversity_case(rng: &mut Rng, geo: &Geo, sum: &mut Summary, id: u64, w: &mut CaseWriter) -> bool {
    let n = match rng.below(8) { 0 => 0, 1 => 1, 2 => 2, _ => rng.range(2, 9) as usize };
    let nreg = rng.range(1, 4) as usize; let nasn = rng.range(1, 3) as u32;
    let tight = rng.chance(1, 2);
    // "spread" selections: distinct far-apart bases so that only the region / ASN counts decide
    let spread = rng.chance(1, 2);
    let mut order: Vec<usize> = (0..geo.bases.len()).collect(); rng.shuffle(&mut order);
    let sel: Vec<SelEntry> = (0..n).map(|i| {
        let loc = if spread { geo.bases[order[i % order.len()]] } else { geo.pick(rng, tight) };
        (node_id(i, 7), loc, 64500 + rng.below(nasn as u64) as u32, REGIONS[rng.below(nreg as u64) as usize])
    }).collect();
    let enf = DiversityEnforcer::new();
    let r = catch_unwind(AssertUnwindSafe(|| enf.validate_selection(&sel)));
    let obsv = match r { Ok(Ok(())) => Obs::Ok(vec![]), Ok(Err(e)) => Obs::Err(err_kind(&e)), Err(_) => Obs::Panic };
    let cand_loc = geo.pick(rng, true);
    let (creg, casn) = (REGIONS[rng.below(nreg as u64) as usize], 64500 + rng.below(nasn as u64) as u32);
    let fr = catch_unwind(AssertUnwindSafe(|| enf.calculate_diversity_factor(&node_id(999, 7), &cand_loc, casn, &creg, &sel)));
    let detail = json!({"kind": "diversity", "selection": sel.iter().map(|s| json!([s.1.latitude, s.1.longitude, s.2, format!("{:?}", s.3)])).collect::<Vec<_>>(),
        "observed_validate": obs_tag(&obsv), "candidate": json!([cand_loc.latitude, cand_loc.longitude, casn, format!("{:?}", creg)])});
    let obsf = match fr { Ok(f) => f, Err(_) => { sum.violation(id, "calculate_diversity_factor panicked", &[], detail.clone()); f64::NAN } };
    if obsv == Obs::Panic { sum.violation(id, "validate_selection panicked", &[], detail.clone()); }
    let mat: Vec<Vec<f64>> = sel.iter().map(|a| sel.iter().map(|b| a.1.distance_km(&b.1)).collect()).collect();
    // direct evaluation of the property's three limits on the real distances
    let mut viol = false;
    for i in 0..n { for j in 0..n { if i != j && mat[i][j] < 50.0 { viol = true; } } }
    for s in &sel {
        if sel.iter().filter(|t| t.3 == s.3).count() > 2 { viol = true; }
        if sel.iter().filter(|t| t.2 == s.2).count() > 3 { viol = true; }
    }
    if matches!(obsv, Obs::Ok(_)) && viol {
        sum.violation(id, "validate_selection accepted a selection that breaks a limit (2 per region / 3 per ASN / 50 km)", &[], detail.clone());
    }
    if mat.iter().flatten().any(|d| d.is_nan()) { sum.count("diversity:nan_distance"); }
    if mat.iter().flatten().any(|d| *d == 50.0) { sum.count("diversity:pair_at_exactly_50km"); }
    if mat.iter().flatten().any(|d| *d > 49.9 && *d < 50.1 && *d != 50.0) { sum.count("diversity:pair_within_100m_of_50km"); }
    for i in 0..n { for j in 0..n { if mat[i][j].to_bits() != mat[j][i].to_bits() && !(mat[i][j].is_nan() && mat[j][i].is_nan()) { sum.count("diversity:asymmetric_distance"); } } }
    sum.count(&format!("diversity:validate:{}", obs_tag(&obsv)));
    let row: Vec<f64> = sel.iter().map(|s| cand_loc.distance_km(&s.1)).collect();
    let ridx = |r: &NetworkRegion| REGIONS.iter().position(|x| x == r).unwrap();
    let term = format!("({}, {}, {}, ({}, {}, {}), {})",
        coq_list(sel.iter().enumerate().map(|(i, s)| format!("({}, ({}, {}))", i, ridx(&s.3), s.2))),
        coq_list(mat.iter().map(|r| coq_list(r.iter().map(|d| cf(*d))))), coq_obs_unit(&obsv),
        ridx(&creg), casn, coq_list(row.iter().map(|d| cf(*d))), cf(obsf));
    w.push(id, term);
    sum.case(id, detail);
    n >= 2
}

// ---------------------------------------------------------------- placement cases
struct PGen { n: usize, k: usize, alpha: f64, beta: f64, gamma: f64, missing: bool, engine: Option<(u8, ByzantineTolerance)>, style: u64 }

fn placement_case(rng: &mut Rng, geo: &Geo, rt: &tokio::runtime::Runtime, sum: &mut Summary, id: u64, w: &mut CaseWriter, g: PGen) -> bool {
    let salt = rng.next();
    let n = g.n;
    let ids: Vec<NodeId> = (0..n).map(|i| node_id(i, salt)).collect();
    let candidates: HashSet<NodeId> = ids.iter().cloned().collect();
    // metadata.  style 0: spread (distinct bases, many regions/ASNs) 1: random 2: tight clusters
    let mut meta: Vec<Option<(GeographicLocation, u32, NetworkRegion)>> = vec![];
    let mut order: Vec<usize> = (0..geo.bases.len()).collect(); rng.shuffle(&mut order);
    for i in 0..n {
        let m = match g.style {
            0 => (geo.bases[order[i % order.len()]], 64500 + (i / 3) as u32, REGIONS[(i / 2) % 8]),
            1 => (geo.pick(rng, false), 64500 + rng.below(6) as u32, REGIONS[rng.below(8) as usize]),
            _ => (geo.pick(rng, true), 64500 + rng.below(2) as u32, REGIONS[rng.below(3) as usize]),
        };
        meta.push(Some(m));
    }
    if g.missing && n > 0 { let j = rng.below(n as u64) as usize; meta[j] = None; }
    let node_metadata: HashMap<NodeId, (GeographicLocation, u32, NetworkRegion)> =
        ids.iter().zip(meta.iter()).filter_map(|(i, m)| m.map(|m| (i.clone(), m))).collect();
    let ow = OptimizationWeights { trust_weight: g.alpha, performance_weight: g.beta, capacity_weight: g.gamma, diversity_weight: 1.0 };
    let (rf_min, bft) = g.engine.unwrap_or((1, ByzantineTolerance::None));
    // the configured maximum is sometimes BELOW the requested factor: the strategy must still return exactly k nodes or an error
    let rf_max: u8 = match rng.below(4) { 0 => 255, 1 => 16, 2 => (rf_min.max(5)), _ => (rf_min.max(3)) };
    let config = PlacementConfig { replication_factor: ReplicationFactor { min: rf_min, default: rf_min.max(8).min(rf_max), max: rf_max },
        placement_timeout: Duration::from_secs(60), byzantine_tolerance: bft, optimization_weights: ow };
    let trust = EigenTrustEngine::new(HashSet::new());
    let perf = PerformanceMonitor::new();
    let seed = rng.next();
    let k8 = g.k as u8;
    // iteration order of the set the strategy will clone
    let order_ids: Vec<u64> = candidates.iter().map(idx_of).collect();
    let r = if g.engine.is_some() {
        let mut engine = PlacementEngine::new(config.clone());
        fastrand::seed(seed);
        catch_unwind(AssertUnwindSafe(|| rt.block_on(engine.select_nodes(&candidates, k8, &trust, &perf, &node_metadata))))
    } else {
        let mut strat = WeightedPlacementStrategy::new(config.clone());
        fastrand::seed(seed);
        catch_unwind(AssertUnwindSafe(|| rt.block_on(strat.select_nodes(&candidates, k8, &trust, &perf, &node_metadata))))
    };
    let obs = match &r { Ok(Ok(d)) => Obs::Ok(d.selected_nodes.iter().map(idx_of).collect()), Ok(Err(e)) => Obs::Err(err_kind(e)), Err(_) => Obs::Panic };
    // oracle tables from the real public functions
    let sampler = WeightedSampler::new();
    let enf = DiversityEnforcer::new();
    let probe = node_id(9999, 1);
    let w_real = |d: f64| sampler.calculate_weight(&probe, 0.8, 0.9, 1.0, d, g.alpha, g.beta, g.gamma);
    let w0 = catch_unwind(AssertUnwindSafe(|| w_real(1.0)));
    let w0_coq = match &w0 { Ok(Ok(x)) => format!("(Ok {})", cf(*x)), Ok(Err(e)) => format!("(Err {})", err_kind(e)), Err(_) => "Panic".into() };
    // the values the diversity factor can take: j penalties, j = 0.., from the real function
    let here = geo.bases[0];
    let mut factors: Vec<f64> = vec![];
    for j in 0..8 {
        let selj: Vec<SelEntry> = (0..j).map(|i| (node_id(5000 + i, 1), here, 1 + i as u32, REGIONS[i % 8])).collect();
        let f = enf.calculate_diversity_factor(&probe, &here, 0, &NetworkRegion::Unknown, &selj);
        if !factors.iter().any(|x| x.to_bits() == f.to_bits()) { factors.push(f); }
    }
    let wds: Vec<f64> = factors.iter().filter_map(|d| w_real(*d).ok()).collect();
    let rounds = g.k.min(n);
    let total: usize = if matches!(w0, Ok(Ok(_))) { (0..rounds).map(|r| n - r).sum() } else { 0 };
    let draws = seeded_draws(seed, total);
    let pw = |x: f64, a: f64| format!("({}, {}, {})", cf(x), cf(a), cf(x.powf(a)));
    let ctab = vec![pw(0.8, g.alpha), pw(0.9, g.beta), pw(1.0, g.gamma)];
    let dm: Vec<Vec<f64>> = (0..n).map(|i| (0..n).map(|j| match (&meta[i], &meta[j]) { (Some(a), Some(b)) => a.0.distance_km(&b.0), _ => f64::NAN }).collect()).collect();
    let ridx = |r: &NetworkRegion| REGIONS.iter().position(|x| x == r).unwrap();
    let detail = json!({"kind": if g.engine.is_some() { "engine" } else { "strategy" }, "n": n, "k": g.k, "fastrand_seed": seed.to_string(),
        "alpha": jf(g.alpha), "beta": jf(g.beta), "gamma": jf(g.gamma), "style": g.style, "missing_metadata": g.missing,
        "rf_min": rf_min, "rf_max": rf_max, "bft": format!("{:?}", bft), "iteration_order": order_ids,
        "nodes": meta.iter().map(|m| match m { Some(m) => json!([m.0.latitude, m.0.longitude, m.1, format!("{:?}", m.2)]), None => json!(null) }).collect::<Vec<_>>(),
        "observed": obs_tag(&obs), "selected": match &obs { Obs::Ok(v) => json!(v), _ => json!(null) }});
    // ---- direct checks of the property on the real answer
    match &obs {
        Obs::Panic => sum.violation(id, "select_nodes panicked", &[], detail.clone()),
        Obs::Ok(v) => {
            let mut bad: Vec<&str> = vec![];
            if v.len() != g.k { bad.push("number of selected nodes differs from the replication factor"); }
            let set: HashSet<u64> = v.iter().cloned().collect();
            if set.len() != v.len() { bad.push("a node is selected twice"); }
            if v.iter().any(|x| (*x as usize) >= n) { bad.push("a selected node is not a candidate"); }
            let selm: Vec<SelEntry> = v.iter().filter_map(|x| meta.get(*x as usize).and_then(|m| *m).map(|m| (ids[*x as usize].clone(), m.0, m.1, m.2))).collect();
            if selm.len() != v.len() { bad.push("a selected node has no metadata"); }
            for (i, a) in selm.iter().enumerate() {
                if selm.iter().filter(|t| t.3 == a.3).count() > 2 { bad.push("more than two nodes in one region"); }
                if selm.iter().filter(|t| t.2 == a.2).count() > 3 { bad.push("more than three nodes in one ASN"); }
                for (j, b) in selm.iter().enumerate() { if i != j && a.1.distance_km(&b.1) < 50.0 { bad.push("two selected nodes closer than 50 km"); } }
            }
            bad.dedup();
            if !bad.is_empty() { sum.violation(id, &format!("Ok placement violates the property: {}", bad.join("; ")), &[], detail.clone()); }
        }
        Obs::Err(_) => {}
    }
    sum.count(&format!("{}:{}", if g.engine.is_some() { "engine" } else { "strategy" }, obs_tag(&obs)));
    if let Obs::Ok(v) = &obs { sum.count(&format!("ok_k:{}", v.len())); }
    if !g.alpha.is_finite() || !g.beta.is_finite() || !g.gamma.is_finite() || g.alpha < 0.0 || g.beta < 0.0 || g.gamma < 0.0 { sum.count("placement:degenerate_optimisation_weight"); }
    let term = format!("(mkP {} {} {} {} (mkCfg {} {} {}) {} {} {} {} {} {})",
        coq_list(order_ids.iter().map(|x| x.to_string())),
        coq_list(meta.iter().map(|m| match m { Some(m) => format!("Some ({}, {})", ridx(&m.2), m.1), None => "None".into() })),
        coq_list(dm.iter().map(|r| coq_list(r.iter().map(|d| cf(*d))))),
        g.k, cf(g.alpha), cf(g.beta), cf(g.gamma),
        coq_list(ctab),
        coq_list(wds.iter().map(|wd| cf(*wd))),
        coq_list(draws.iter().map(|u| format!("({}, {})", cf(*u), coq_list(wds.iter().map(|wd| cf(u.powf(1.0 / wd))))))),
        w0_coq,
        match g.engine { Some((m, b)) => format!("(Some ({}, {}))", m, b.required_nodes()), None => "None".into() },
        coq_obs(&obs));
    w.push(id, term);
    sum.case(id, detail);
    matches!(obs, Obs::Ok(ref v) if v.len() >= 2)
}

fn pick_exponent(rng: &mut Rng) -> f64 {
    match rng.below(24) {
        0..=9 => 1.0, 10 => 0.0, 11 => 0.5, 12 => 2.0, 13 => 50.0, 14 => 3000.0, 15 => 1e6, 16 => -1.0, 17 => -5000.0,
        18 => f64::NAN, 19 => f64::INFINITY, 20 => f64::NEG_INFINITY, 21 => f64::from_bits(1), 22 => -0.0, _ => unit(rng) * 4.0,
    }
}

/// measured (not proved): frequency with which each of four candidates with weights 4,2,1,1 is drawn first
fn measure_frequencies(sum: &mut Summary, rounds: u64) {
    let cands: Vec<(NodeId, f64)> = [4.0, 2.0, 1.0, 1.0].iter().enumerate().map(|(i, w)| (node_id(i, 3), *w)).collect();
    let mut hits = [0u64; 4];
    let mut sampler = WeightedSampler::new();
    for s in 0..rounds {
        fastrand::seed(0xC17_0000 + s);
        if let Ok(v) = sampler.sample_nodes(&cands, 1) { hits[idx_of(&v[0]) as usize] += 1; }
    }
    sum.notes.push(format!("MEASURED (statistical, not proved): first pick among weights [4,2,1,1] over {} seeded draws: {:?} (expected shares 0.5, 0.25, 0.125, 0.125)", rounds, hits));
    for (i, h) in hits.iter().enumerate() { sum.add(&format!("measured_first_pick_w{}", i), *h); }
    // 0.5 vs 0.25 vs 0.125: with >= 4000 draws the gaps are > 10 standard deviations
    if !(hits[0] > hits[1] && hits[1] > hits[2] && hits[1] > hits[3]) {
        sum.violation(0, "measured selection frequencies do not favour heavier candidates (weights 4,2,1,1)", &[], json!({"hits": hits, "draws": rounds}));
    }
}

fn main() {
    let args = Args::parse();
    install_trace_sink();
    std::panic::set_hook(Box::new(|_| {}));
    let rt = tokio::runtime::Builder::new_current_thread().enable_all().build().unwrap();
    let mut rng = Rng::new(args.seed);
    let mut sum = Summary::default();
    sum.rule = "three generators on the main thread with fastrand seeded per case: (1) WeightedSampler::sample_nodes on 0..60 candidates, k in {0,1,n-1,n,n+1,0..20}, weights incl. 0, -0, negative, +-inf, NaN, subnormal, duplicate ids, forced NaN weights at 21..60 candidates; (2) DiversityEnforcer::validate_selection / calculate_diversity_factor on 0..9 nodes with pairs at 0 / 49.999 / 50 / 50.001 / 99.999 / 100 / 100.001 km, antipodes, poles, 1-4 regions, 1-3 ASNs; (3) WeightedPlacementStrategy::select_nodes and PlacementEngine::select_nodes on 0..60 candidates, k 0..=20 (+ n, n+1), optimisation exponents incl. 0, negative, huge, +-inf, NaN, subnormal, missing metadata, spread / random / clustered geography. Non-trivial = a selection of >= 2 nodes was returned or >= 2 nodes were validated; distinct = different generated input".into();
    let geo = Geo::new();
    let thorough = args.thorough();
    let (ns, nd, np) = if thorough { (3000u64, 3000u64, 2500u64) } else { (300, 300, 260) };
    let mut id = 0u64;
    {
        let mut w = CaseWriter::new(&args.out, "cases_c17s", HEADER, "scase", "check_scase", "prop_scase", 50);
        // forced boundary of the sort's ordering check: NaN weights with 21..60 candidates
        for (n, k) in [(21usize, 1usize), (24, 3), (32, 5), (40, 1), (60, 20), (60, 1), (20, 1), (22, 22)] {
            let mut r2 = rng.fork();
            for _ in 0..3 { if sampler_case(&mut r2, &mut sum, id, &mut w, Some((n, k, true))) { sum.distinct_nontrivial += 1; } sum.evaluations += 1; id += 1; }
        }
        for _ in 0..ns { let mut r2 = rng.fork(); if sampler_case(&mut r2, &mut sum, id, &mut w, None) { sum.distinct_nontrivial += 1; } sum.evaluations += 1; id += 1; }
        w.flush();
    }
    {
        let mut w = CaseWriter::new(&args.out, "cases_c17d", HEADER, "dcase", "check_dcase", "prop_dcase", 60);
        for _ in 0..nd { let mut r2 = rng.fork(); if diversity_case(&mut r2, &geo, &mut sum, id, &mut w) { sum.distinct_nontrivial += 1; } sum.evaluations += 1; id += 1; }
        w.flush();
    }
    {
        let mut w = CaseWriter::new(&args.out, "cases_c17p", HEADER, "pcase", "check_pcase", "prop_pcase", 20);
        for i in 0..np {
            let mut r2 = rng.fork();
            let style = match r2.below(10) { 0..=4 => 0, 5..=7 => 1, _ => 2 };
            let k = match r2.below(12) { 0 => 0, 1 => 1, 2 => 2, 3 => 3, 4 => 16, 5 => 17, 6 => 20, _ => r2.below(21) as usize };
            let big = i % 40 == 7;
            let n = match r2.below(12) {
                0 => 0, 1 => k, 2 => k + 1, 3 => k.saturating_sub(1),
                4 | 5 => if big { 60 - (i as usize / 40) % 2 } else { (k + 2).min(60) },
                6..=8 => (k + r2.below(4) as usize).min(60),
                _ => if big { 26 + r2.below(35) as usize } else { r2.below(25) as usize },
            };
            let degen = r2.chance(1, 4);
            let (alpha, beta, gamma) = if degen { (pick_exponent(&mut r2), pick_exponent(&mut r2), pick_exponent(&mut r2)) } else { (1.0, 1.0, 1.0) };
            let engine = if r2.chance(1, 4) {
                let rf_min = *r2.pick(&[1u8, 3, 3, 4, 8]);
                let bft = match r2.below(4) { 0 => ByzantineTolerance::None, 1 => ByzantineTolerance::Classic { f: 1 }, 2 => ByzantineTolerance::Classic { f: 2 }, _ => ByzantineTolerance::Custom { total_nodes: 5, max_faults: 2 } };
                Some((rf_min, bft))
            } else { None };
            let g = PGen { n, k, alpha, beta, gamma, missing: r2.chance(1, 15), engine, style };
            if placement_case(&mut r2, &geo, &rt, &mut sum, id, &mut w, g) { sum.distinct_nontrivial += 1; }
            sum.evaluations += 1; id += 1;
        }
        w.flush();
    }
    measure_frequencies(&mut sum, if thorough { 200_000 } else { 20_000 });
    sum.write(&args.out);
}
