//! C13 correspondence: real IPDiversityEnforcer, DhtCoreEngine::{add_node, evict_node,
//! handle_node_failure} and BootstrapManager::add_peer vs Model/Diversity.v.
use saorsa_core::bootstrap::{BootstrapConfig, BootstrapManager};
use saorsa_core::dht::core_engine::{DhtCoreEngine, NodeCapacity, NodeId, NodeInfo};
use saorsa_core::dht::routing_maintenance::close_group_validator::CloseGroupValidationResult;
use saorsa_core::dht::routing_maintenance::EvictionReason;
use saorsa_core::rate_limit::JoinRateLimiterConfig;
use saorsa_core::security::{
    DiversityStats, GeoInfo, GeoProvider, IPDiversityConfig, IPDiversityEnforcer, UnifiedIPAnalysis,
};
use saorsa_core::NetworkAddress;
use serde_json::json;
use std::net::{IpAddr, Ipv4Addr, Ipv6Addr, SocketAddr};
use std::sync::{Arc, Mutex};
use vh::*;

const HEADER: &str = "From SV Require Import Lib.Base Gen.DiversityConsts Model.Diversity.\nLocal Open Scope N_scope.";

// ------------------------------------------------------------------ inputs
#[derive(Clone, Copy, Debug, PartialEq, Eq, Hash)]
enum Ip { V4(u32), V6(u128) }
impl Ip {
    fn std(self) -> IpAddr {
        match self { Ip::V4(a) => IpAddr::V4(Ipv4Addr::from(a)), Ip::V6(a) => IpAddr::V6(Ipv6Addr::from(a)) }
    }
    fn coq(self) -> String { match self { Ip::V4(a) => format!("(IP4 {})", a), Ip::V6(a) => format!("(IP6 {})", a) } }
}
#[derive(Clone, Copy, Debug, PartialEq, Eq, Hash)]
struct Attrs { asn: Option<u32>, country: Option<u8>, hosting: bool, vpn: bool }
const NO_ATTRS: Attrs = Attrs { asn: None, country: None, hosting: false, vpn: false };
impl Attrs {
    fn coq(self) -> String {
        format!("(mkAt {} {} {} {})", coq_opt(self.asn.map(|x| x.to_string())), coq_opt(self.country.map(|x| x.to_string())),
            coq_bool(self.hosting), coq_bool(self.vpn))
    }
    fn geo(self) -> GeoInfo {
        GeoInfo { asn: self.asn, country: self.country.map(|c| format!("C{}", c)), is_hosting_provider: self.hosting, is_vpn_provider: self.vpn }
    }
}
#[derive(Clone, Debug)]
enum Op { Add(Ip, Attrs), Remove(Ip, Attrs), SetSize(u64), Probe(Ip, Attrs) }
impl Op {
    fn coq(&self) -> String {
        match self {
            Op::Add(ip, a) => format!("Add {} {}", ip.coq(), a.coq()),
            Op::Remove(ip, a) => format!("Remove {} {}", ip.coq(), a.coq()),
            Op::SetSize(n) => format!("SetSize {}", n),
            Op::Probe(ip, a) => format!("Probe {} {}", ip.coq(), a.coq()),
        }
    }
}

/// IPDiversityConfig with the fraction as an exact rational
#[derive(Clone, Debug)]
struct Cfg { c64: u64, c48: u64, c32: u64, v32: u64, v24: u64, v16: u64, ipcap: u64, fnum: u64, fden: u64, asn: u64, name: &'static str }
impl Cfg {
    fn real(&self) -> IPDiversityConfig {
        IPDiversityConfig {
            max_nodes_per_64: self.c64 as usize, max_nodes_per_48: self.c48 as usize, max_nodes_per_32: self.c32 as usize,
            max_nodes_per_ipv4_32: self.v32 as usize, max_nodes_per_ipv4_24: self.v24 as usize, max_nodes_per_ipv4_16: self.v16 as usize,
            max_per_ip_cap: self.ipcap as usize, max_network_fraction: self.fnum as f64 / self.fden as f64,
            max_nodes_per_asn: self.asn as usize, enable_geolocation_check: false, min_geographic_diversity: 0,
        }
    }
    fn from_real(c: &IPDiversityConfig, fnum: u64, fden: u64, name: &'static str) -> Cfg {
        Cfg { c64: c.max_nodes_per_64 as u64, c48: c.max_nodes_per_48 as u64, c32: c.max_nodes_per_32 as u64,
              v32: c.max_nodes_per_ipv4_32 as u64, v24: c.max_nodes_per_ipv4_24 as u64, v16: c.max_nodes_per_ipv4_16 as u64,
              ipcap: c.max_per_ip_cap as u64, fnum, fden, asn: c.max_nodes_per_asn as u64, name }
    }
    fn coq(&self) -> String {
        format!("(mkCfg {} {} {} {} {} {} {} {} {} {} DIV_MAX_SUBNET_TRACKING)", self.c64, self.c48, self.c32, self.v32, self.v24, self.v16,
            self.ipcap, self.fnum, self.fden, self.asn)
    }
    fn json(&self) -> serde_json::Value {
        json!({"name": self.name, "per_64": self.c64.to_string(), "per_48": self.c48.to_string(), "per_32": self.c32.to_string(),
               "ipv4_32": self.v32.to_string(), "ipv4_24": self.v24.to_string(), "ipv4_16": self.v16.to_string(),
               "per_ip_cap": self.ipcap.to_string(), "fraction": format!("{}/{}", self.fnum, self.fden), "asn": self.asn.to_string()})
    }
}
/// fractions whose binary64 value is exact or not below the decimal value, so that
/// floor(size * fraction) cannot fall short of the exact floor
const FRACTIONS: &[(u64, u64)] = &[(1, 200), (1, 10), (1, 1), (1, 2), (1, 4), (1, 8), (1, 100), (1, 20), (1, 1000), (1, 50)];

/// true when binary64 rounding would make floor(size*fraction) differ from the exact value
fn ambiguous_size(size: u64, num: u64, den: u64) -> bool {
    let exact = (size as u128 * num as u128 / den as u128).min(u64::MAX as u128) as u64;
    let fl = (size as f64 * (num as f64 / den as f64)).floor() as u64;
    exact != fl
}

fn stats_vec(s: &DiversityStats) -> Vec<u64> {
    vec![s.total_64_subnets, s.total_48_subnets, s.total_32_subnets, s.max_nodes_per_64, s.max_nodes_per_48, s.max_nodes_per_32,
         s.total_ipv4_32, s.total_ipv4_24_subnets, s.total_ipv4_16_subnets, s.max_nodes_per_ipv4_32, s.max_nodes_per_ipv4_24,
         s.max_nodes_per_ipv4_16, s.total_asns, s.total_countries].into_iter().map(|x| x as u64).collect()
}
fn coq_obs(r: u64, snap: &[u64]) -> String { format!("({}, {})", r, coq_list(snap.iter().map(|x| x.to_string()))) }

// ------------------------------------------------------------------ address pools
struct Pool { v4: Vec<u32>, v6: Vec<u128> }
const FIRST_OCTETS: &[u32] = &[1, 10, 99, 100, 126, 127, 159, 160, 191, 192, 223, 224, 239, 240, 247, 248, 251, 252, 255, 0];
fn make_pool(rng: &mut Rng, n16: u64, n24: u64, nhost: u64, n32: u64, n48: u64, n64: u64, nh6: u64) -> Pool {
    let mut v4 = vec![];
    for _ in 0..n16 {
        let base = (*rng.pick(FIRST_OCTETS) << 24) | ((rng.below(256) as u32) << 16);
        let c0 = rng.below(200) as u32;
        for c in 0..n24 {
            let h0 = rng.below(200) as u32;
            for h in 0..nhost { v4.push(base | ((c0 + c as u32) << 8) | (h0 + h as u32)); }
        }
    }
    let mut v6 = vec![];
    for _ in 0..n32 {
        let p32 = ((0x2000_0000u128 | rng.below(1 << 28) as u128)) << 96;
        let a0 = rng.below(60000) as u128;
        for a in 0..n48 {
            let b0 = rng.below(60000) as u128;
            for b in 0..n64 {
                for _ in 0..nh6 { v6.push(p32 | ((a0 + a as u128) << 80) | ((b0 + b as u128) << 64) | rng.next() as u128); }
            }
        }
    }
    Pool { v4, v6 }
}
impl Pool {
    fn pick(&self, rng: &mut Rng) -> Ip {
        if !self.v4.is_empty() && (self.v6.is_empty() || rng.chance(1, 2)) { Ip::V4(*rng.pick(&self.v4)) } else { Ip::V6(*rng.pick(&self.v6)) }
    }
}
fn pick_attrs(rng: &mut Rng, rich: bool) -> Attrs {
    if !rich { return NO_ATTRS; }
    Attrs {
        asn: match rng.below(4) { 0 => None, 1 => Some(64500), 2 => Some(64501), _ => Some(14061) },
        country: match rng.below(4) { 0 | 1 => None, 2 => Some(1), _ => Some(2) },
        hosting: rng.chance(1, 4), vpn: rng.chance(1, 6),
    }
}

// ------------------------------------------------------------------ the real enforcer
#[derive(Debug)]
struct Prov(Mutex<GeoInfo>);
impl GeoProvider for Prov { fn lookup(&self, _ip: Ipv6Addr) -> GeoInfo { self.0.lock().unwrap().clone() } }

struct RealEnf { enf: IPDiversityEnforcer, prov: Arc<Prov> }
impl RealEnf {
    fn new(cfg: &Cfg) -> Self {
        let prov = Arc::new(Prov(Mutex::new(NO_ATTRS.geo())));
        RealEnf { enf: IPDiversityEnforcer::with_geo_provider(cfg.real(), prov.clone()), prov }
    }
    /// analysis through the library (prefixes computed there); attributes come from the
    /// GeoProvider for IPv6 and are filled into the public fields for IPv4 (analyze_ipv4 has no lookup)
    fn analyze(&self, ip: Ip, at: Attrs) -> UnifiedIPAnalysis {
        *self.prov.0.lock().unwrap() = at.geo();
        let mut an = self.enf.analyze_unified(ip.std()).expect("analyze");
        if let UnifiedIPAnalysis::IPv4(a) = &mut an {
            let g = at.geo();
            a.asn = g.asn; a.country = g.country; a.is_hosting_provider = g.is_hosting_provider; a.is_vpn_provider = g.is_vpn_provider;
        }
        an
    }
    fn step(&mut self, op: &Op) -> u64 {
        match op {
            Op::Add(ip, at) => { let an = self.analyze(*ip, *at); if self.enf.add_unified(&an).is_ok() { 1 } else { 0 } }
            Op::Remove(ip, at) => { let an = self.analyze(*ip, *at); self.enf.remove_unified(&an); 2 }
            Op::SetSize(n) => { self.enf.set_network_size(*n as usize); self.enf.get_per_ip_limit() as u64 }
            Op::Probe(ip, at) => { let an = self.analyze(*ip, *at); if self.enf.can_accept_unified(&an) { 1 } else { 0 } }
        }
    }
}

fn random_cfg(rng: &mut Rng) -> Cfg {
    let (fnum, fden) = *rng.pick(FRACTIONS);
    let small = |rng: &mut Rng| match rng.below(12) { 0 => 0, 1..=3 => 1, 4..=6 => 2, 7..=8 => 3, 9 => 4, 10 => 6, _ => 9 };
    Cfg { c64: small(rng), c48: small(rng), c32: small(rng), v32: small(rng), v24: small(rng), v16: small(rng),
          ipcap: match rng.below(8) { 0 => 0, 1..=3 => 1, 4..=5 => 2, 6 => 3, _ => 6 }, fnum, fden, asn: small(rng), name: "random-small" }
}
fn pick_cfg(rng: &mut Rng) -> Cfg {
    match rng.below(10) {
        0..=1 => Cfg::from_real(&IPDiversityConfig::default(), 1, 200, "default"),
        2 => Cfg::from_real(&IPDiversityConfig::testnet(), 1, 10, "testnet"),
        3 => Cfg::from_real(&IPDiversityConfig::permissive(), 1, 1, "permissive"),
        _ => random_cfg(rng),
    }
}
fn pick_size(rng: &mut Rng, cfg: &Cfg) -> u64 {
    for _ in 0..20 {
        let k = rng.range(1, cfg.ipcap.min(60) + 1);
        let edge = (k as u128 * cfg.fden as u128 / cfg.fnum as u128).min(u64::MAX as u128) as u64;
        let s = match rng.below(12) {
            0 => 0, 1 => 1, 2..=4 => edge, 5..=6 => edge.saturating_sub(1), 7..=8 => edge.saturating_add(1),
            9 => rng.below(5000), 10 => 1_000_000, _ => if cfg.name == "permissive" { u64::MAX } else { 1u64 << 40 },
        };
        if !ambiguous_size(s, cfg.fnum, cfg.fden) { return s; }
    }
    0
}

struct EnfCase { cfg: Cfg, ops: Vec<Op>, obs: Vec<(u64, Vec<u64>)>, kind: &'static str, wf: bool }

fn enf_case(rng: &mut Rng, sum: &mut Summary, thorough: bool) -> EnfCase {
    let cfg = pick_cfg(rng);
    let mut real = RealEnf::new(&cfg);
    let rich = rng.chance(2, 3);
    let (p1, p2, p3, p4) = (rng.range(1, 3), rng.range(1, 3), rng.range(1, 3), rng.range(1, 3));
    let pool = make_pool(rng, 2, p1, p2, 2, p3, p4, 2);
    let mut ops = vec![]; let mut obs = vec![];
    let mut admitted: Vec<(Ip, Attrs)> = vec![];
    let mut wf = true;
    let directed = rng.chance(2, 5);
    let nops = if directed { 0 } else { rng.range(5, if thorough { 120 } else { 70 }) };
    let kind = if directed { "enforcer-fill" } else { "enforcer-random" };
    let mut push = |real: &mut RealEnf, op: Op, admitted: &mut Vec<(Ip, Attrs)>, sum: &mut Summary| -> u64 {
        let r = real.step(&op);
        match &op {
            Op::Add(ip, at) => { if r == 1 { admitted.push((*ip, *at)); sum.count("add:ok"); } else { sum.count("add:refused"); } }
            Op::Remove(ip, at) => { if let Some(i) = admitted.iter().position(|x| x == &(*ip, *at)) { admitted.remove(i); } sum.count("remove"); }
            Op::SetSize(_) => sum.count("set_network_size"),
            Op::Probe(..) => sum.count(if r == 1 { "probe:accept" } else { "probe:refuse" }),
        }
        obs.push((r, stats_vec(&real.enf.get_diversity_stats())));
        ops.push(op);
        r
    };
    if directed {
        // drive one prefix to its limit: same level key, finer levels spread so that the chosen level binds
        let v4 = rng.chance(1, 2);
        let lvl = rng.below(3);
        let at = pick_attrs(rng, rich);
        if rng.chance(1, 3) { let s = pick_size(rng, &cfg); push(&mut real, Op::SetSize(s), &mut admitted, sum); }
        let max_adds = if thorough { 160 } else { 115 };
        let mut refusals = 0; let mut i = 0u64;
        let base4 = (*rng.pick(FIRST_OCTETS) << 24) | ((rng.below(256) as u32) << 16);
        let base6 = (0x2001_0db8u128 << 96) | ((rng.below(60000) as u128) << 80) | ((rng.below(60000) as u128) << 64);
        let mk = |i: u64| -> Ip {
            if v4 {
                match lvl { 0 => Ip::V4(base4 | 0x0101), 1 => Ip::V4(base4 | 0x0100 | (i as u32 % 250)), _ => Ip::V4(base4 | ((i as u32 % 250) << 8) | 1) }
            } else {
                match lvl { 0 => Ip::V6(base6 | (i as u128 + 1)),
                            1 => Ip::V6((base6 & !(0xffffu128 << 64)) | ((i as u128) << 64) | 1),
                            _ => Ip::V6((base6 & !(0xffff_ffffu128 << 64)) | ((i as u128) << 80) | ((i as u128) << 64) | 1) }
            }
        };
        while refusals < 2 && i < max_adds {
            let r = push(&mut real, Op::Add(mk(i), at), &mut admitted, sum);
            if r == 0 { refusals += 1; }
            i += 1;
        }
        sum.count(if refusals > 0 { "fill:limit-reached" } else { "fill:limit-not-reached" });
        // the refused candidate as an ordinary / hosting node, then give slots back and retry
        let last = mk(i.saturating_sub(1));
        push(&mut real, Op::Probe(last, Attrs { hosting: !at.hosting, ..at }), &mut admitted, sum);
        for _ in 0..rng.range(1, 3) {
            if admitted.is_empty() { break; }
            let (ip, a) = admitted[rng.below(admitted.len() as u64) as usize];
            push(&mut real, Op::Remove(ip, a), &mut admitted, sum);
            push(&mut real, Op::Probe(last, at), &mut admitted, sum);
            push(&mut real, Op::Add(last, at), &mut admitted, sum);
        }
        if rng.chance(1, 2) {
            let s = pick_size(rng, &cfg); push(&mut real, Op::SetSize(s), &mut admitted, sum);
            push(&mut real, Op::Add(mk(i + 1), at), &mut admitted, sum);
        }
    }
    for _ in 0..nops {
        let op = match rng.below(20) {
            0..=10 => Op::Add(pool.pick(rng), pick_attrs(rng, rich)),
            11..=13 => {
                if !admitted.is_empty() && rng.chance(19, 20) { let (ip, a) = admitted[rng.below(admitted.len() as u64) as usize]; Op::Remove(ip, a) }
                else { let ip = pool.pick(rng); let a = pick_attrs(rng, rich); if !admitted.contains(&(ip, a)) { wf = false; } Op::Remove(ip, a) }
            }
            14..=16 => Op::Probe(pool.pick(rng), pick_attrs(rng, rich)),
            17 => Op::SetSize(pick_size(rng, &cfg)),
            _ => { // re-add something that is already admitted (same IP again)
                if let Some((ip, a)) = admitted.last().copied() { Op::Add(ip, a) } else { Op::Add(pool.pick(rng), pick_attrs(rng, rich)) }
            }
        };
        push(&mut real, op, &mut admitted, sum);
    }
    EnfCase { cfg, ops, obs, kind, wf }
}

// ------------------------------------------------------------------ routing-table pipeline
#[derive(Clone, Debug)]
enum Form { Bare(Ip), Sock(Ip, u16), Display(Ip, u16, bool), Garbage }
#[derive(Clone, Debug)]
enum EOp { Add { id: [u8; 32], form: Form, text: String, valid: bool }, Evict([u8; 32]), Fail([u8; 32]) }
fn coq_form(f: &Form) -> String {
    match f {
        Form::Bare(ip) => format!("(FBare {})", ip.coq()),
        Form::Sock(ip, p) => format!("(FSock {} {})", ip.coq(), p),
        Form::Display(ip, p, w) => format!("(FDisplay {} {} {})", ip.coq(), p, coq_bool(*w)),
        Form::Garbage => "FGarbage".into(),
    }
}
fn coq_eop(o: &EOp) -> String {
    match o {
        EOp::Add { id, form, valid, .. } => format!("EAdd {} {} {}", n_of_be(id), coq_form(form), coq_bool(*valid)),
        EOp::Evict(id) => format!("EEvict {}", n_of_be(id)),
        EOp::Fail(id) => format!("EFail {}", n_of_be(id)),
    }
}
/// the address text exactly as the library renders it
/// the hypotheses of C13_address_forms, sampled on one address: std round trips and no space in std's text
fn address_text_hypotheses(ip: Ip, port: u16) -> Option<String> {
    let sock = SocketAddr::new(ip.std(), port);
    let (st, it) = (sock.to_string(), ip.std().to_string());
    if st.parse::<SocketAddr>().ok() != Some(sock) { return Some(format!("SocketAddr text {st} does not parse back")); }
    if it.parse::<SocketAddr>().is_ok() { return Some(format!("IpAddr text {it} parses as a SocketAddr")); }
    if it.parse::<IpAddr>().ok() != Some(ip.std()) { return Some(format!("IpAddr text {it} does not parse back")); }
    if st.contains(' ') || it.contains(' ') { return Some(format!("std address text contains a space: {st} / {it}")); }
    let na = NetworkAddress::from_ip_port(ip.std(), port);
    let expect = match na.four_words() { Some(w) => format!("{} ({})", st, w), None => st.clone() };
    if na.to_string() != expect { return Some(format!("NetworkAddress text {} is not socket text plus \" (words)\"", na)); }
    None
}
fn render(rng: &mut Rng, ip: Ip, sel: u64) -> (Form, String) {
    let port = rng.range(1, 65535) as u16;
    match sel {
        0 => (Form::Bare(ip), ip.std().to_string()),
        1 => (Form::Sock(ip, port), SocketAddr::new(ip.std(), port).to_string()),
        2 => (Form::Garbage, (*rng.pick(&["", "not an address", "example.org:9000", "1.2.3:80", "/ip4/1.2.3.4/tcp/9000"])).to_string()),
        _ => {
            let na = NetworkAddress::from_ip_port(ip.std(), port);
            (Form::Display(ip, port, na.four_words().is_some()), na.to_string())
        }
    }
}
fn err_code(e: &str) -> u64 {
    if e.contains("close group validation") { 1 }
    else if e.contains("IP diversity") || e.contains("IPv4 diversity") { 2 }
    else if e.contains("Geographic diversity") { 3 }
    else if e.contains("K-bucket at capacity") { 4 }
    else { 9 }
}
const REGIONS: &[&str] = &["NorthAmerica", "Europe", "AsiaPacific", "SouthAmerica", "Africa", "Oceania", "Unknown"];
async fn esnap(e: &DhtCoreEngine) -> Vec<u64> {
    let (st, regions, entries) = e.verif_admission_snapshot().await;
    let mut v = stats_vec(&st);
    for r in REGIONS { v.push(regions.iter().find(|(n, _)| n == r).map(|(_, c)| *c as u64).unwrap_or(0)); }
    v.push(entries as u64);
    v
}
/// an id whose first differing bit from `me` is bit `b` (counted from the most significant)
fn id_in_bucket(rng: &mut Rng, me: &[u8; 32], b: usize, serial: u32) -> [u8; 32] {
    let mut id = *me;
    id[b / 8] ^= 0x80 >> (b % 8);
    for bit in (b + 1)..224 { if rng.chance(1, 2) { id[bit / 8] ^= 0x80 >> (bit % 8); } }
    id[28..32].copy_from_slice(&serial.to_be_bytes());
    id
}

struct EngCase { me: [u8; 32], ops: Vec<EOp>, obs: Vec<(u64, Vec<u64>)>, kind: String }

async fn eng_case(rng: &mut Rng, sum: &mut Summary, thorough: bool) -> EngCase {
    let me: [u8; 32] = rng.bytes(32).try_into().unwrap();
    let strict_mode = rng.chance(1, 3);
    let mut eng = if strict_mode { DhtCoreEngine::new(NodeId::from_bytes(me)).expect("engine") }
                  else { saorsa_core::verif_hooks::core_engine_log_only(NodeId::from_bytes(me)).expect("engine") };
    let scenario = rng.below(8);
    let kind = format!("engine-{}-{}", if strict_mode { "strict" } else { "logonly" },
        ["random", "random", "fill-ipv4", "fill-ipv6", "fill-region", "fill-bucket", "forms", "random"][scenario as usize]);
    let mut ops = vec![]; let mut obs = vec![];
    let mut present: Vec<[u8; 32]> = vec![];
    let mut serial = 0u32;
    // candidate address streams
    let pool = make_pool(rng, 2, 3, 2, 2, 2, 2, 1);
    let base4 = (*rng.pick(&[10u32, 99, 100, 126, 127, 159, 160, 191, 192, 223, 224, 240, 248, 252]) << 24) | ((rng.below(200) as u32) << 16);
    let base6 = (0x2001_0db8u128 << 96) | ((rng.below(60000) as u128) << 80);
    let n = match scenario { 4 => 64, 2 | 3 => 30, 5 => 14, 6 => 16, _ => rng.range(5, if thorough { 90 } else { 50 }) };
    let fill_bucket = rng.below(6) as usize;
    for i in 0..n {
        let roll = rng.below(20);
        let evict = !present.is_empty() && match scenario { 0 | 1 | 7 => roll < 5, 6 => false, _ => i > 12 && roll < 3 };
        let reannounce = !evict && !present.is_empty() && matches!(scenario, 0 | 1 | 7 | 2 | 3) && roll >= 18;
        let op = if reannounce {
            // a peer that is already listed announces itself again from ANOTHER address: pure refresh
            let id = present[rng.below(present.len() as u64) as usize];
            let ip = match scenario { 2 => Ip::V4(base4 | 0x0001), 3 => Ip::V6(base6 | 1), _ => pool.pick(rng) };
            let sel = match rng.below(4) { 0 => 0, 1 => 1, _ => 3 };
            let (form, text) = render(rng, ip, sel);
            sum.count("engine:reannounce");
            EOp::Add { id, form, text, valid: rng.chance(1, 2) }
        } else if evict {
            let id = if rng.chance(9, 10) { present[rng.below(present.len() as u64) as usize] } else { rng.bytes(32).try_into().unwrap() };
            if rng.chance(1, 2) { EOp::Evict(id) } else { EOp::Fail(id) }
        } else {
            let ip = match scenario {
                // one /16: three hosts per /24, so the /24 cap, the per-IP cap (every 7th repeats) and the /16 cap bind in turn
                2 => if i % 7 == 6 { Ip::V4(base4 | 0x0001) } else { Ip::V4(base4 | (((i / 4) as u32) << 8) | (i as u32 % 4)) },
                // one /32: /64 repeats, four /64 per /48
                3 => if i % 7 == 6 { Ip::V6(base6 | 1) } else { Ip::V6(base6 | (((i / 4) as u128) << 80) | ((i as u128) << 64) | 1) },
                // one region: three hosts per /24, nine per /16
                4 => Ip::V4((base4 & 0xff00_0000) | (((i / 9) as u32) << 16) | (((i / 3) as u32 % 3) << 8) | (i as u32 % 3 + 1)),
                5 => Ip::V4((base4 & 0xff00_0000) | ((i as u32) << 16) | 7),
                _ => pool.pick(rng),
            };
            let sel = match scenario { 6 => i % 4, _ => match rng.below(10) { 0 => 0, 1..=2 => 1, 3 => 2, _ => 3 } };
            let (form, text) = render(rng, ip, sel);
            if let Form::Sock(ip, p) | Form::Display(ip, p, _) = &form {
                if let Some(why) = address_text_hypotheses(*ip, *p) { sum.violation(0, "a hypothesis of C13_address_forms fails on the real std/NetworkAddress text", &[], json!({"why": why})); }
                sum.count("address-text-hypotheses-sampled");
            }
            serial += 1;
            let b = match scenario { 5 => fill_bucket, 4 => (i / 7) as usize, _ => rng.below(12) as usize };
            let id = id_in_bucket(rng, &me, b, serial);
            // validator: Strict needs a cached positive verdict; LogOnly admits everything
            let valid = if strict_mode {
                match rng.below(10) {
                    0 => false, // unknown node
                    1 => { let mut r = CloseGroupValidationResult::new(NodeId::from_bytes(id)); r.is_valid = false;
                           eng.close_group_validator().read().await.cache_result(r); false }
                    _ => { let mut r = CloseGroupValidationResult::new(NodeId::from_bytes(id)); r.is_valid = true;
                           eng.close_group_validator().read().await.cache_result(r); true }
                }
            } else { true };
            EOp::Add { id, form, text, valid }
        };
        let r = match &op {
            EOp::Add { id, text, form, .. } => {
                let node = NodeInfo { id: NodeId::from_bytes(*id), address: text.clone(), last_seen: std::time::SystemTime::now(), capacity: NodeCapacity::default() };
                let r = match eng.add_node(node).await { Ok(()) => 0, Err(e) => err_code(&e.to_string()) };
                if r == 0 && !present.contains(id) { present.push(*id); }
                sum.count(&format!("engine:add:{}", ["ok", "validator", "ip-diversity", "region", "bucket-full", "", "", "", "", "other-error"][r as usize]));
                sum.count(&format!("engine:form:{}", match form { Form::Bare(_) => "ip", Form::Sock(..) => "ip:port", Form::Display(_, _, true) => "display+words", Form::Display(_, _, false) => "display", Form::Garbage => "garbage" }));
                r
            }
            EOp::Evict(id) => { present.retain(|x| x != id); sum.count("engine:evict"); eng.evict_node(&NodeId::from_bytes(*id), EvictionReason::Stale).await.map(|_| 0).unwrap_or(9) }
            EOp::Fail(id) => { present.retain(|x| x != id); sum.count("engine:failure"); eng.handle_node_failure(NodeId::from_bytes(*id)).await.map(|_| 0).unwrap_or(9) }
        };
        obs.push((r, esnap(&eng).await));
        ops.push(op);
    }
    EngCase { me, ops, obs, kind }
}

// ------------------------------------------------------------------ bootstrap cache
struct BootCase { cfg: Cfg, ops: Vec<(Ip, u64, Vec<u64>)>, other_error: Option<String> }
async fn boot_case(rng: &mut Rng, sum: &mut Summary) -> Option<BootCase> {
    let cfg = match rng.below(4) { 0 | 1 => Cfg::from_real(&IPDiversityConfig::default(), 1, 200, "default"), _ => random_cfg(rng) };
    let dir = tempfile::tempdir().ok()?;
    let big = 1_000_000u32;
    // in a third of the walks the global join limiter is tight: joins refused by it must leave every diversity counter alone
    let burst = if rng.chance(1, 3) { rng.range(2, 5) as u32 } else { big };
    let bc = BootstrapConfig { cache_dir: dir.path().to_path_buf(), max_peers: 1000, epsilon: 0.0,
        rate_limit: JoinRateLimiterConfig { max_joins_per_64_per_hour: big, max_joins_per_48_per_hour: big, max_joins_per_24_per_hour: big,
                                            max_global_joins_per_minute: if burst == big { big } else { 1 }, global_burst_size: burst },
        diversity: cfg.real() };
    let mgr = BootstrapManager::with_config(bc).await.ok()?;
    let pool = make_pool(rng, 3, 2, 2, 2, 2, 2, 2);
    let mut ops = vec![]; let mut other = None;
    // first two peers from unrelated IPv4 networks (F13d), then a walk over the pool
    let n = rng.range(4, 24);
    for i in 0..n {
        let ip = match i { 0 => Ip::V4(0x0a01_0203), 1 => Ip::V4(0xc633_6407), _ => pool.pick(rng) };
        let before = stats_vec(&mgr.verif_diversity_stats());
        let r = match mgr.add_peer(format!("peer-{}", i), vec![SocketAddr::new(ip.std(), 9000 + i as u16)]).await {
            Ok(()) => 1,
            Err(e) => {
                let s = e.to_string();
                if burst != big && !s.contains("IP diversity limits exceeded") {
                    // refused by the join rate limiter: an admission that fails part-way consumes nothing
                    let after = stats_vec(&mgr.verif_diversity_stats());
                    sum.count("bootstrap:add:rate-limited");
                    if after != before {
                        sum.violation(0, "a join refused by the rate limiter kept its diversity slots (admission that fails part-way must consume none)", &[],
                            json!({"ip": format!("{:?}", ip.std()), "error": s, "stats_before": before, "stats_after": after}));
                    }
                    continue;
                }
                if !s.contains("IP diversity limits exceeded") { other = Some(s); } 0 }
        };
        sum.count(if r == 1 { "bootstrap:add:ok" } else { "bootstrap:add:refused" });
        ops.push((ip, r, stats_vec(&mgr.verif_diversity_stats())));
    }
    Some(BootCase { cfg, ops, other_error: other })
}

fn main() {
    let args = Args::parse();
    install_trace_sink();
    let rt = tokio::runtime::Builder::new_multi_thread().worker_threads(4).enable_all().build().unwrap();
    let mut rng = Rng::new(args.seed);
    let mut sum = Summary::default();
    sum.rule = "three case families. enforcer: histories of add/remove/probe/set_network_size on the real IPDiversityEnforcer under default, testnet, permissive and random small-cap configurations (caps 0..9), addresses drawn from small prefix trees (IPv4 /16-/24-host, IPv6 /32-/48-/64-host) with ASN/country/hosting/VPN attributes, plus directed runs that fill one prefix until two refusals, give slots back and retry, and network sizes at k/fraction-1, k/fraction, k/fraction+1. engine: DhtCoreEngine::add_node/evict_node/handle_node_failure (Strict with cached validator verdicts, and LogOnly) with every address text the library renders (ip, ip:port, NetworkAddress::to_string() with and without four-word suffix, garbage), directed fills of an IP, /24, /16, /64, /48, /32, a region (50/51) and a bucket (8/9). bootstrap: BootstrapManager::add_peer walks. After EVERY operation the verdict and the full counter statistics are compared. Non-trivial = contains at least one admission and one refusal; distinct = different (configuration, operations, verdicts).".into();
    let mut w = CaseWriter::new(&args.out, "cases_c13", HEADER, "tcase", "check_case", "prop_case", 20);
    let thorough = args.thorough();
    let (n_enf, n_eng, n_boot) = if thorough { (3000, 1000, 200) } else { (330, 130, 30) };
    let mut id = 0u64;
    let mut seen = std::collections::HashSet::new();
    let prev_hook = std::panic::take_hook();
    std::panic::set_hook(Box::new(|_| {}));
    for _ in 0..n_enf {
        let mut r2 = rng.fork();
        let mut local = Summary::default();
        let res = std::panic::catch_unwind(std::panic::AssertUnwindSafe(|| enf_case(&mut r2, &mut local, thorough)));
        for (k, v) in local.distribution { sum.add(&k, v); }
        match res {
            Ok(c) => {
                let term = format!("CEnf {} {} {}", c.cfg.coq(), coq_list(c.ops.iter().map(|o| o.coq())), coq_list(c.obs.iter().map(|(r, s)| coq_obs(*r, s))));
                w.push(id, term);
                let ok = c.obs.iter().zip(&c.ops).filter(|((r, _), o)| matches!(o, Op::Add(..)) && *r == 1).count();
                let no = c.obs.iter().zip(&c.ops).filter(|((r, _), o)| matches!(o, Op::Add(..)) && *r == 0).count();
                let key = format!("{:?}|{:?}|{:?}", c.cfg, c.ops, c.obs.iter().map(|x| x.0).collect::<Vec<_>>());
                if ok > 0 && no > 0 && seen.insert(key) { sum.distinct_nontrivial += 1; }
                sum.count(&format!("kind:{}", c.kind)); sum.count(&format!("config:{}", c.cfg.name));
                if !c.wf { sum.count("enforcer:history-with-remove-of-unadmitted-node"); }
                sum.add("ops_total", c.ops.len() as u64);
                sum.case(id, json!({"kind": c.kind, "config": c.cfg.json(), "ops": c.ops.iter().map(|o| format!("{:?}", o)).collect::<Vec<_>>(),
                    "observed": c.obs.iter().map(|(r, s)| json!([r, s])).collect::<Vec<_>>()}));
            }
            Err(p) => {
                let msg = p.downcast_ref::<String>().cloned().or_else(|| p.downcast_ref::<&str>().map(|s| s.to_string())).unwrap_or_default();
                sum.case(id, json!({"kind": "enforcer", "panic": msg}));
                sum.violation(id, "the enforcer panicked", &[], json!({"panic": msg}));
            }
        }
        sum.evaluations += 1; id += 1;
    }
    for _ in 0..n_eng {
        let mut r2 = rng.fork();
        let c = rt.block_on(eng_case(&mut r2, &mut sum, thorough));
        let term = format!("CEng {} {} {}", n_of_be(&c.me), coq_list(c.ops.iter().map(coq_eop)), coq_list(c.obs.iter().map(|(r, s)| coq_obs(*r, s))));
        w.push(id, term);
        let ok = c.obs.iter().zip(&c.ops).filter(|((r, _), o)| matches!(o, EOp::Add { .. }) && *r == 0).count();
        let no = c.obs.iter().zip(&c.ops).filter(|((r, _), o)| matches!(o, EOp::Add { .. }) && *r != 0).count();
        let key = format!("{:?}|{:?}", c.ops.iter().map(coq_eop).collect::<Vec<_>>(), c.obs.iter().map(|x| x.0).collect::<Vec<_>>());
        if ok > 0 && no > 0 && seen.insert(key) { sum.distinct_nontrivial += 1; }
        sum.count(&format!("kind:{}", c.kind)); sum.add("ops_total", c.ops.len() as u64);
        sum.case(id, json!({"kind": c.kind, "local_id": hex::encode(c.me),
            "ops": c.ops.iter().map(|o| match o { EOp::Add { id, text, valid, .. } => json!({"add_node": {"id": hex::encode(id), "address": text, "validator": valid}}),
                                                   EOp::Evict(id) => json!({"evict_node": hex::encode(id)}), EOp::Fail(id) => json!({"handle_node_failure": hex::encode(id)}) }).collect::<Vec<_>>(),
            "observed": c.obs.iter().map(|(r, s)| json!([r, s])).collect::<Vec<_>>()}));
        sum.evaluations += 1; id += 1;
    }
    for _ in 0..n_boot {
        let mut r2 = rng.fork();
        let Some(c) = rt.block_on(boot_case(&mut r2, &mut sum)) else { sum.discarded_ambiguous += 1; continue };
        let term = format!("CBoot {} {}", c.cfg.coq(), coq_list(c.ops.iter().map(|(ip, r, s)| format!("({}, {})", ip.coq(), coq_obs(*r, s)))));
        w.push(id, term);
        let ok = c.ops.iter().filter(|x| x.1 == 1).count(); let no = c.ops.len() - ok;
        let key = format!("{:?}|{:?}", c.cfg, c.ops.iter().map(|x| (x.0, x.1)).collect::<Vec<_>>());
        if ok > 0 && no > 0 && seen.insert(key) { sum.distinct_nontrivial += 1; }
        sum.count("kind:bootstrap"); sum.add("ops_total", c.ops.len() as u64);
        sum.case(id, json!({"kind": "bootstrap", "config": c.cfg.json(), "add_peer": c.ops.iter().map(|(ip, r, s)| json!([ip.std().to_string(), r, s])).collect::<Vec<_>>()}));
        if let Some(e) = c.other_error { sum.violation(id, "BootstrapManager::add_peer failed for a reason other than the diversity caps", &[], json!({"error": e})); }
        sum.evaluations += 1; id += 1;
    }
    std::panic::set_hook(prev_hook);
    w.flush();
    sum.write(&args.out);
}
