//! C16 correspondence: the real EvictionManager / NodeLivenessState, the real
//! TrustAwarePeerSelector (with a scripted TrustProvider) and the real DhtCoreEngine
//! (routing table + select_query_peers / select_storage_peers) vs Model/Eviction.v and
//! Model/Selector.v.
//!
//! Three case families, one Coq case type each:
//!  ev  - a history of record_success / record_failure / update_trust_score / record_eviction /
//!        remove_node over a few peers, interleaved with get_eviction_candidates (as a set),
//!        get_eviction_reason, should_evict, should_evict_for_trust, get_consecutive_failures;
//!        thresholds 0,1,2,3,5 failures and trust thresholds incl. NaN; failure runs of
//!        max-1 / max / max+1; trust at the threshold and one ulp either side, NaN, -5, 7, inf.
//!  sel - one call of select_peers / select_storage_peers: 0..64 candidates, ids differing from
//!        the key only in low-order bytes, in the 17th byte, in the top bytes; sorted and shuffled
//!        input; repeated ids; trust in [0,1] with many ties plus NaN, -5, 7, +-inf, -0.0;
//!        for_storage / for_queries / default / custom weights (outside [0,1] and NaN included).
//!  eng - DhtCoreEngine: add_node / join_network / handle_node_failure / evict_node / find_nodes
//!        interleaved with enable/disable_trust_selection (real EigenTrustEngine, pre-trusted
//!        peers read 0.9, the rest 0.0) and the two selections (verif-hooks wrappers); store()
//!        receipts are checked against select_storage_peers(key, 8).
//! Floats travel as IEEE-754 bit patterns (exact); nothing is compared as text.
use saorsa_core::adaptive::{EigenTrustEngine, NodeId as AdaptiveNodeId, TrustProvider};
use saorsa_core::dht::core_engine::{DhtCoreEngine, DhtKey, NodeCapacity, NodeId, NodeInfo};
use saorsa_core::dht::routing_maintenance::{EvictionManager, EvictionReason, MaintenanceConfig};
use saorsa_core::dht::trust_peer_selector::{TrustAwarePeerSelector, TrustSelectionConfig};
use serde_json::json;
use std::collections::{HashMap, HashSet};
use std::sync::Arc;
use std::time::SystemTime;
use vh::*;

const HEADER_EV: &str = "From Coq Require Import Floats.\nFrom SV Require Import Lib.Base Model.Eviction.\nLocal Open Scope N_scope.";
const HEADER_SEL: &str = "From Coq Require Import Floats.\nFrom SV Require Import Lib.Base Model.Routing Model.Selector.\nLocal Open Scope N_scope.";

type Id = [u8; 32];

fn fbits(x: f64) -> String { format!("(fb {})", x.to_bits()) }
fn fjson(x: f64) -> serde_json::Value { json!({"f64": format!("{:?}", x), "bits": format!("{:#018x}", x.to_bits())}) }
fn next_up(x: f64) -> f64 { if x.is_nan() || x == f64::INFINITY { x } else if x == 0.0 { f64::from_bits(1) } else if x > 0.0 { f64::from_bits(x.to_bits() + 1) } else { f64::from_bits(x.to_bits() - 1) } }
fn next_down(x: f64) -> f64 { -next_up(-x) }

// ---------------------------------------------------------------- eviction family
#[derive(Clone, Debug, PartialEq)]
enum Rsn { Failures(u32), LowTrust, Rejected, Stale }
#[derive(Clone, Debug)]
enum EvOp { Success(u8), Failure(u8), Trust(u8, f64), Mark(u8, Rsn), Forget(u8), QCands, QReason(u8), QShould(u8), QShouldTrust(u8), QFails(u8) }
#[derive(Clone, Debug)]
enum EvObs { None, Cands(Vec<(u8, Rsn)>), Reason(Option<Rsn>), Bool(bool), Num(u32) }

fn peer_id(p: u8) -> NodeId { let mut b = [0u8; 32]; b[0] = p; b[31] = p.wrapping_mul(3); NodeId::from_bytes(b) }
fn peer_of(id: &NodeId) -> u8 { id.as_bytes()[0] }
fn conv_reason(r: &EvictionReason) -> Rsn {
    match r {
        EvictionReason::ConsecutiveFailures(n) => Rsn::Failures(*n),
        EvictionReason::LowTrust(_) => Rsn::LowTrust,
        EvictionReason::CloseGroupRejection => Rsn::Rejected,
        EvictionReason::Stale => Rsn::Stale,
    }
}
fn real_reason(r: &Rsn) -> EvictionReason {
    match r {
        Rsn::Failures(n) => EvictionReason::ConsecutiveFailures(*n),
        Rsn::LowTrust => EvictionReason::LowTrust("0.0100".into()),
        Rsn::Rejected => EvictionReason::CloseGroupRejection,
        Rsn::Stale => EvictionReason::Stale,
    }
}
fn coq_rsn(r: &Rsn) -> String {
    match r { Rsn::Failures(n) => format!("RFailures {}", n), Rsn::LowTrust => "RLowTrust".into(), Rsn::Rejected => "RRejected".into(), Rsn::Stale => "RStale".into() }
}
fn coq_evop(o: &EvOp) -> String {
    match o {
        EvOp::Success(p) => format!("Ev (Success {})", p),
        EvOp::Failure(p) => format!("Ev (Failure {})", p),
        EvOp::Trust(p, t) => format!("Ev (Trust {} {})", p, fbits(*t)),
        EvOp::Mark(p, r) => format!("Ev (Mark {} ({}))", p, coq_rsn(r)),
        EvOp::Forget(p) => format!("Ev (Forget {})", p),
        EvOp::QCands => "QCands".into(),
        EvOp::QReason(p) => format!("QReason {}", p),
        EvOp::QShould(p) => format!("QShouldEvict {}", p),
        EvOp::QShouldTrust(p) => format!("QShouldTrust {}", p),
        EvOp::QFails(p) => format!("QFails {}", p),
    }
}
fn coq_evobs(o: &EvObs) -> String {
    match o {
        EvObs::None => "ONone".into(),
        EvObs::Cands(l) => format!("OCands {}", coq_list(l.iter().map(|(p, r)| format!("({}, {})", p, coq_rsn(r))))),
        EvObs::Reason(None) => "OReason None".into(),
        EvObs::Reason(Some(r)) => format!("OReason (Some ({}))", coq_rsn(r)),
        EvObs::Bool(b) => format!("OBool {}", coq_bool(*b)),
        EvObs::Num(n) => format!("ONum {}", n),
    }
}
fn json_evop(o: &EvOp) -> serde_json::Value {
    match o {
        EvOp::Success(p) => json!({"record_success": p}),
        EvOp::Failure(p) => json!({"record_failure": p}),
        EvOp::Trust(p, t) => json!({"update_trust_score": [p, fjson(*t)]}),
        EvOp::Mark(p, r) => json!({"record_eviction": [p, format!("{:?}", r)]}),
        EvOp::Forget(p) => json!({"remove_node": p}),
        EvOp::QCands => json!("get_eviction_candidates"),
        EvOp::QReason(p) => json!({"get_eviction_reason": p}),
        EvOp::QShould(p) => json!({"should_evict": p}),
        EvOp::QShouldTrust(p) => json!({"should_evict_for_trust": p}),
        EvOp::QFails(p) => json!({"get_consecutive_failures": p}),
    }
}
fn pick_trust_near(rng: &mut Rng, thr: f64) -> f64 {
    match rng.below(16) {
        0 => thr,
        1 => next_down(thr),
        2 => next_up(thr),
        3 => f64::NAN,
        4 => -5.0,
        5 => 7.0,
        6 => f64::INFINITY,
        7 => 0.0,
        8 => 1.0,
        9 => f64::NEG_INFINITY,
        10 => -0.0,
        11 => thr / 2.0,
        12 => 0.15,
        _ => (rng.below(1001) as f64) / 1000.0,
    }
}
fn run_ev_case(rng: &mut Rng, sum: &mut Summary) -> (u32, f64, Vec<EvOp>, Vec<EvObs>) {
    let max_fail: u32 = *rng.pick(&[3u32, 3, 3, 1, 2, 5, 0, 4]);
    let thr: f64 = *rng.pick(&[0.15, 0.15, 0.15, 0.0, 1.0, 0.5, f64::NAN, -1.0, 0.3, 2.0]);
    let npeers = rng.range(1, 6) as u8;
    let cfg = MaintenanceConfig { max_consecutive_failures: max_fail, min_trust_threshold: thr, ..Default::default() };
    let mut m = if rng.chance(1, 4) {
        let mut init = HashMap::new();
        // with_trust is update_trust_score applied up front
        let p = rng.range(1, npeers as u64) as u8;
        let t = pick_trust_near(rng, thr);
        init.insert(peer_id(p), t);
        let mm = EvictionManager::with_trust(cfg, init);
        (mm, vec![EvOp::Trust(p, t)], vec![EvObs::None])
    } else { (EvictionManager::new(cfg), vec![], vec![]) };
    let (mgr, ops, obs) = (&mut m.0, &mut m.1, &mut m.2);
    let nops = rng.range(4, 70) as usize;
    let mut pending: Vec<EvOp> = vec![];
    while ops.len() < nops {
        let p = rng.range(1, npeers as u64) as u8;
        if pending.is_empty() {
            match rng.below(20) {
                0..=4 => pending.push(EvOp::Failure(p)),
                5 | 6 => {
                    // a run of failures around the limit, sometimes split by other peers' events
                    let n = match rng.below(3) { 0 => max_fail.saturating_sub(1), 1 => max_fail, _ => max_fail + 1 };
                    for _ in 0..n { pending.push(EvOp::Failure(p)); if rng.chance(1, 5) { pending.push(EvOp::Failure(rng.range(1, npeers as u64) as u8)); } }
                    sum.count("ev:failure_run_at_limit");
                }
                7 | 8 => pending.push(EvOp::Success(p)),
                9 | 10 => pending.push(EvOp::Trust(p, pick_trust_near(rng, thr))),
                11 => pending.push(EvOp::Mark(p, match rng.below(5) { 0 => Rsn::Failures(rng.below(9) as u32), 1 => Rsn::LowTrust, 2 => Rsn::Stale, _ => Rsn::Rejected })),
                12 => pending.push(EvOp::Forget(p)),
                13 => { pending.push(EvOp::Forget(p)); pending.push(EvOp::Failure(p)); pending.push(EvOp::QReason(p)); pending.push(EvOp::QFails(p)); }
                14 => { pending.push(EvOp::Success(p)); pending.push(EvOp::QShould(p)); pending.push(EvOp::QReason(p)); sum.count("ev:query_right_after_success"); }
                15 => pending.push(EvOp::QCands),
                16 => pending.push(EvOp::QReason(p)),
                17 => pending.push(EvOp::QShould(p)),
                18 => pending.push(EvOp::QShouldTrust(p)),
                _ => pending.push(EvOp::QFails(p)),
            }
            pending.reverse();
        }
        let Some(op) = pending.pop() else { continue };
        let o = match &op {
            EvOp::Success(p) => { mgr.record_success(&peer_id(*p)); EvObs::None }
            EvOp::Failure(p) => { mgr.record_failure(&peer_id(*p)); EvObs::None }
            EvOp::Trust(p, t) => { mgr.update_trust_score(&peer_id(*p), *t); EvObs::None }
            EvOp::Mark(p, r) => { mgr.record_eviction(&peer_id(*p), real_reason(r)); EvObs::None }
            EvOp::Forget(p) => { mgr.remove_node(&peer_id(*p)); EvObs::None }
            EvOp::QCands => {
                let mut l: Vec<(u8, Rsn)> = mgr.get_eviction_candidates().iter().map(|(id, r)| (peer_of(id), conv_reason(r))).collect();
                l.sort_by_key(|x| x.0);
                sum.count(&format!("ev:candidates:{}", l.len().min(4)));
                sum.evaluations += 1;
                EvObs::Cands(l)
            }
            EvOp::QReason(p) => {
                let r = mgr.get_eviction_reason(&peer_id(*p)).map(|r| conv_reason(&r));
                sum.count(match &r { None => "ev:reason:none", Some(Rsn::Failures(_)) => "ev:reason:failures", Some(Rsn::LowTrust) => "ev:reason:low_trust", Some(_) => "ev:reason:marked" });
                sum.evaluations += 1;
                EvObs::Reason(r)
            }
            EvOp::QShould(p) => { sum.evaluations += 1; EvObs::Bool(mgr.should_evict(&peer_id(*p))) }
            EvOp::QShouldTrust(p) => { sum.evaluations += 1; EvObs::Bool(mgr.should_evict_for_trust(&peer_id(*p))) }
            EvOp::QFails(p) => { sum.evaluations += 1; EvObs::Num(mgr.get_consecutive_failures(&peer_id(*p))) }
        };
        ops.push(op); obs.push(o);
    }
    // closing: every peer's reason and the candidate set
    for p in 1..=npeers {
        ops.push(EvOp::QReason(p)); obs.push(EvObs::Reason(mgr.get_eviction_reason(&peer_id(p)).map(|r| conv_reason(&r)))); sum.evaluations += 1;
    }
    let mut l: Vec<(u8, Rsn)> = mgr.get_eviction_candidates().iter().map(|(id, r)| (peer_of(id), conv_reason(r))).collect();
    l.sort_by_key(|x| x.0);
    ops.push(EvOp::QCands); obs.push(EvObs::Cands(l)); sum.evaluations += 1;
    sum.count(&format!("ev:max_failures:{}", max_fail));
    (max_fail, thr, m.1, m.2)
}

// ---------------------------------------------------------------- ids and names
fn xor(a: &Id, b: &Id) -> Id { let mut r = [0u8; 32]; for i in 0..32 { r[i] = a[i] ^ b[i]; } r }
fn rand_id(rng: &mut Rng) -> Id { let mut r = [0u8; 32]; for b in r.iter_mut() { *b = rng.next() as u8; } r }
fn hx(id: &Id) -> String { hex::encode(id) }
/// N value of a big-endian byte string written with the constructors of `positive` (fast to parse)
fn n_ctor(id: &Id) -> String {
    let mut bits: Vec<bool> = vec![];
    for b in id.iter() { for i in (0..8).rev() { bits.push((b >> i) & 1 == 1); } }
    let Some(first) = bits.iter().position(|b| *b) else { return "N0".into() };
    let mut t = String::from("xH");
    for b in &bits[first + 1..] { t = format!("({} {})", if *b { "xI" } else { "xO" }, t); }
    format!("(Npos {})", t)
}
#[derive(Default)]
struct Names { idx: HashMap<Id, usize>, defs: Vec<String> }
impl Names {
    fn n(&mut self, id: &Id) -> String {
        if let Some(i) = self.idx.get(id) { return format!("k{}", i); }
        let i = self.defs.len();
        self.idx.insert(*id, i);
        self.defs.push(format!("let k{} := {} in", i, n_ctor(id)));
        format!("k{}", i)
    }
}
fn addr(pl: u64) -> String { format!("a{}", pl) }
fn pl_of(address: &str) -> u64 { address.trim_start_matches('a').parse().unwrap_or(u64::MAX) }
fn info(id: &Id, pl: u64) -> NodeInfo {
    NodeInfo { id: NodeId::from_bytes(*id), address: addr(pl), last_seen: SystemTime::now(), capacity: NodeCapacity::default() }
}
fn nodes_of(v: Vec<NodeInfo>) -> Vec<(Id, u64)> { v.into_iter().map(|n| (*n.id.as_bytes(), pl_of(&n.address))).collect() }
fn coq_node(nm: &mut Names, n: &(Id, u64)) -> String { format!("nd {} {}", nm.n(&n.0), n.1) }
fn coq_nodes(nm: &mut Names, l: &[(Id, u64)]) -> String { coq_list(l.iter().map(|x| coq_node(nm, x)).collect::<Vec<_>>()) }
fn json_nodes(l: &[(Id, u64)]) -> serde_json::Value { json!(l.iter().map(|(i, p)| json!([hx(i), p])).collect::<Vec<_>>()) }

// ---------------------------------------------------------------- selector family
struct Scripted { map: HashMap<Id, f64>, default: f64 }
impl TrustProvider for Scripted {
    fn get_trust(&self, node: &AdaptiveNodeId) -> f64 { self.map.get(&node.hash).copied().unwrap_or(self.default) }
    fn update_trust(&self, _from: &AdaptiveNodeId, _to: &AdaptiveNodeId, _success: bool) {}
    fn get_global_trust(&self) -> HashMap<AdaptiveNodeId, f64> { HashMap::new() }
    fn remove_node(&self, _node: &AdaptiveNodeId) {}
}
struct SelCase { w: f64, mn: f64, ex: bool, key: Id, cands: Vec<(Id, u64)>, trust: Vec<(Id, f64)>, count: u64, res: Vec<(Id, u64)>, entry: &'static str, kind: String }

fn pick_trust(rng: &mut Rng, palette: &[f64]) -> f64 {
    match rng.below(24) {
        0 => f64::NAN,
        1 => -5.0,
        2 => 7.0,
        3 => f64::INFINITY,
        4 => f64::NEG_INFINITY,
        5 => -0.0,
        6 => 0.2,
        7 => next_down(0.2),
        8 => next_up(0.2),
        9 => 0.0,
        10 => 1.0,
        11 => (rng.below(1001) as f64) / 1000.0,
        _ => *rng.pick(palette),
    }
}
/// the XOR pattern (distance to the key) of one candidate
fn dist_pattern(rng: &mut Rng, class: u64) -> Id {
    let mut p = [0u8; 32];
    match class {
        0 => { p[31] = rng.next() as u8; }                                          // last byte only
        1 => { p[30] = rng.below(3) as u8; p[31] = rng.next() as u8; }              // last two bytes
        2 => { for i in 16..32 { p[i] = rng.next() as u8; } }                        // anywhere in the low 16 bytes (invisible to the score)
        3 => { p[16] = rng.below(4) as u8; p[31] = rng.below(4) as u8; }             // 17th byte and last byte
        4 => { p[15] = rng.below(3) as u8; p[31] = rng.below(8) as u8; }             // lowest byte the score sees + last byte
        5 => { p[8] = rng.below(4) as u8; p[20] = rng.below(4) as u8; }              // so small that 1 + d/1e30 absorbs it
        6 => { p[0] = rng.below(4) as u8; p[1] = rng.next() as u8; p[31] = rng.below(2) as u8; }  // top bytes (score differs)
        _ => { p = rand_id(rng); }
    }
    p
}
fn gen_sel_case(rng: &mut Rng, sum: &mut Summary) -> SelCase {
    let key: Id = match rng.below(5) { 0 => [0u8; 32], 1 => [0xFFu8; 32], _ => rand_id(rng) };
    let n = match rng.below(12) { 0 => 0, 1 => 1, 2 => 2, 3 => 64, 4 => 63, 5..=8 => rng.range(2, 12), _ => rng.range(3, 40) } as usize;
    let class_main = rng.below(9);
    let npal = rng.range(1, 3) as usize;
    let palette: Vec<f64> = (0..npal).map(|_| *rng.pick(&[0.5, 0.9, 0.1, 0.2, 0.25, 0.0, 1.0, 0.19999, 0.7])).collect();
    let mut cands: Vec<(Id, u64)> = vec![];
    let mut trust: Vec<(Id, f64)> = vec![];
    let mut seen: HashSet<Id> = HashSet::new();
    let mut dup = false;
    for i in 0..n {
        let class = if rng.chance(3, 4) { class_main } else { rng.below(9) };
        // a repeated candidate is an identical entry (same id, same address): the order of two
        // identical entries is unobservable, so a stable and an unstable sort give the same answer
        if !cands.is_empty() && rng.chance(1, 40) { dup = true; let c = *rng.pick(&cands); cands.push(c); continue; }
        let id = xor(&key, &dist_pattern(rng, class));
        if !seen.insert(id) { dup = true; let c = *cands.iter().find(|c| c.0 == id).unwrap(); cands.push(c); continue; }
        cands.push((id, i as u64 + 1));
        trust.push((id, pick_trust(rng, &palette)));
    }
    // order of the input: sorted by distance (what the engine passes), reversed, or shuffled
    let order = rng.below(4);
    match order {
        0 => cands.sort_by_key(|c| xor(&key, &c.0)),
        1 => { cands.sort_by_key(|c| xor(&key, &c.0)); cands.reverse(); }
        _ => rng.shuffle(&mut cands),
    }
    let (w, mn, ex, cfgname) = match rng.below(12) {
        0..=3 => (0.5, 0.2, true, "for_storage"),
        4..=6 => (0.3, 0.1, false, "for_queries"),
        7 => (1.0, 0.1, false, "weight-1"),
        8 => (0.0, 0.2, rng.chance(1, 2), "weight-0"),
        9 => (*rng.pick(&[-0.5, 2.0, f64::NAN, f64::INFINITY, -0.0]), 0.1, rng.chance(1, 2), "weight-out-of-range"),
        10 => (0.3, *rng.pick(&[0.0, f64::NAN, 1.5, -1.0, 1.0]), true, "odd-floor"),
        _ => ((rng.below(101) as f64) / 100.0, (rng.below(101) as f64) / 100.0, rng.chance(1, 2), "custom"),
    };
    let count = match rng.below(10) { 0 => 0, 1 => 1, 2 => n as u64, 3 => (n as u64).saturating_sub(1), 4 => n as u64 + 1, 5 => 8, 6 => 3, 7 => 100, _ => rng.range(1, 20) };
    let provider = Arc::new(Scripted { map: trust.iter().cloned().collect(), default: 0.0 });
    let infos: Vec<NodeInfo> = cands.iter().map(|(id, pl)| info(id, *pl)).collect();
    let k = DhtKey::from_bytes(key);
    let cfg = TrustSelectionConfig { trust_weight: w, min_trust_threshold: mn, exclude_untrusted: ex };
    // reach select_peers_with_config through each public entry point
    let (res, entry) = match (cfgname, rng.below(3)) {
        ("for_storage", 0) => (TrustAwarePeerSelector::new(provider, TrustSelectionConfig::default()).select_storage_peers(&k, &infos, count as usize), "new().select_storage_peers"),
        ("for_storage", 1) => (TrustAwarePeerSelector::new(provider, TrustSelectionConfig::for_storage()).select_peers(&k, &infos, count as usize), "new(for_storage()).select_peers"),
        ("for_queries", 0) => (TrustAwarePeerSelector::new(provider, TrustSelectionConfig::for_queries()).select_peers(&k, &infos, count as usize), "new(for_queries()).select_peers"),
        ("for_queries", 1) => (TrustAwarePeerSelector::new(provider, TrustSelectionConfig::default()).select_peers(&k, &infos, count as usize), "new(default()).select_peers"),
        (_, 0) => (TrustAwarePeerSelector::with_storage_config(provider, TrustSelectionConfig::default(), cfg).select_storage_peers(&k, &infos, count as usize), "with_storage_config().select_storage_peers"),
        _ => (TrustAwarePeerSelector::new(provider, cfg).select_peers(&k, &infos, count as usize), "new(cfg).select_peers"),
    };
    sum.count(&format!("sel:config:{}", cfgname));
    sum.count(&format!("sel:input_order:{}", match order { 0 => "by-distance", 1 => "reverse-distance", _ => "shuffled" }));
    sum.count(&format!("sel:id_class:{}", match class_main { 0 => "last-byte", 1 => "last-two-bytes", 2 => "low-16-bytes", 3 => "17th+last", 4 => "16th+last", 5 => "absorbed-by-1+d/1e30", 6 => "top-bytes", _ => "random" }));
    sum.count(&format!("sel:candidates:{}", match n { 0 => "0", 1 => "1", 2..=8 => "2-8", 9..=24 => "9-24", 25..=63 => "25-63", _ => "64" }));
    if dup { sum.count("sel:repeated_id"); }
    if trust.iter().any(|t| t.1.is_nan()) { sum.count("sel:trust_nan"); }
    if trust.iter().any(|t| !t.1.is_nan() && (t.1 < 0.0 || t.1 > 1.0)) { sum.count("sel:trust_out_of_range"); }
    if (res.len() as u64) == count && (res.len() < n) { sum.count("sel:cut_at_count"); }
    if ex && res.len() < n.min(count as usize) { sum.count("sel:fewer_trusted_than_count"); }
    SelCase { w, mn, ex, key, cands, trust, count, res: nodes_of(res), entry, kind: cfgname.to_string() }
}

// ---------------------------------------------------------------- engine family
#[derive(Clone, Debug)]
enum EOp {
    Join(Vec<(Id, u64)>), Add(Id, u64), Fail(Id), Evict(Id), Find(Id, u64),
    SetSel(Option<((f64, f64, bool), (f64, f64, bool))>, Vec<(Id, f64)>),
    SelQuery(Id, u64), SelStorage(Id, u64),
}
#[derive(Clone, Debug, PartialEq)]
enum EObs { Ok, Err, Nodes(Vec<(Id, u64)>) }
fn coq_cfg3(c: &(f64, f64, bool)) -> String { format!("({}, {}, {})", fbits(c.0), fbits(c.1), coq_bool(c.2)) }
fn coq_eop(nm: &mut Names, o: &EOp) -> String {
    match o {
        EOp::Join(l) => format!("R (Join {})", coq_nodes(nm, l)),
        EOp::Add(id, pl) => format!("R (Add (nd {} {}) true)", nm.n(id), pl),
        EOp::Fail(id) => format!("R (Fail {})", nm.n(id)),
        EOp::Evict(id) => format!("R (Evict {})", nm.n(id)),
        EOp::Find(k, c) => format!("R (Find {} {})", nm.n(k), c),
        EOp::SetSel(s, tr) => format!("SetSel {} {}",
            match s { None => "None".to_string(), Some((q, st)) => format!("(Some ({}, {}))", coq_cfg3(q), coq_cfg3(st)) },
            coq_list(tr.iter().map(|(i, t)| format!("({}, {})", nm.n(i), fbits(*t))).collect::<Vec<_>>())),
        EOp::SelQuery(k, c) => format!("SelQuery {} {}", nm.n(k), c),
        EOp::SelStorage(k, c) => format!("SelStorage {} {}", nm.n(k), c),
    }
}
fn coq_eobs(nm: &mut Names, o: &EObs) -> String {
    match o { EObs::Ok => "OOk".into(), EObs::Err => "OErr".into(), EObs::Nodes(l) => format!("ONodes {}", coq_nodes(nm, l)) }
}
fn json_eop(o: &EOp) -> serde_json::Value {
    match o {
        EOp::Join(l) => json!({"join_network": json_nodes(l)}),
        EOp::Add(id, pl) => json!({"add_node": [hx(id), pl]}),
        EOp::Fail(id) => json!({"handle_node_failure": hx(id)}),
        EOp::Evict(id) => json!({"evict_node": hx(id)}),
        EOp::Find(k, c) => json!({"find_nodes": {"key": hx(k), "count": c}}),
        EOp::SetSel(s, tr) => json!({"trust_selection": match s { None => json!("disabled"), Some((q, st)) => json!({"query": [fjson(q.0), fjson(q.1), q.2], "storage": [fjson(st.0), fjson(st.1), st.2]}) },
                                     "trust": tr.iter().map(|(i, t)| json!([hx(i), fjson(*t)])).collect::<Vec<_>>()}),
        EOp::SelQuery(k, c) => json!({"select_query_peers": {"key": hx(k), "count": c}}),
        EOp::SelStorage(k, c) => json!({"select_storage_peers": {"key": hx(k), "count": c}}),
    }
}
fn json_eobs(o: &EObs) -> serde_json::Value { match o { EObs::Ok => json!("Ok"), EObs::Err => json!("Err"), EObs::Nodes(l) => json_nodes(l) } }

fn set_bit(x: &mut Id, i: usize) { x[i / 8] |= 0x80 >> (i % 8); }
fn clear_bit(x: &mut Id, i: usize) { x[i / 8] &= !(0x80 >> (i % 8)); }
fn id_in_bucket(local: &Id, b: usize, low: &Id) -> Id {
    let mut p = *low;
    for i in 0..b { clear_bit(&mut p, i); }
    set_bit(&mut p, b);
    xor(local, &p)
}

async fn gen_eng_case(case_id: u64, rng: &mut Rng, sum: &mut Summary) -> (Id, Vec<EOp>, Vec<EObs>) {
    let local: Id = match rng.below(4) { 0 => [0u8; 32], _ => rand_id(rng) };
    let mut eng: DhtCoreEngine = saorsa_core::verif_hooks::core_engine_log_only(NodeId::from_bytes(local)).expect("engine");
    // id pool: a few buckets, ids inside a bucket differing in low-order bytes
    let mut pool: Vec<Id> = vec![];
    let nb = rng.range(2, 5);
    for _ in 0..nb {
        let b = *rng.pick(&[0usize, 1, 2, 3, 5, 8, 100, 200, 250, 255]);
        for _ in 0..rng.range(3, 9) {
            let mut low = [0u8; 32];
            match rng.below(3) { 0 => { low[31] = rng.next() as u8; } 1 => { low[31] = rng.next() as u8; low[20] = rng.below(3) as u8; } _ => { low = rand_id(rng); } }
            let id = id_in_bucket(&local, b, &low);
            if id != local && !pool.contains(&id) { pool.push(id); }
        }
    }
    let keys: Vec<Id> = (0..4).map(|_| match rng.below(5) { 0 => local, 1 => *rng.pick(&pool), 2 => { let mut k = *rng.pick(&pool); k[31] ^= 1; k } _ => rand_id(rng) }).collect();
    let mut ops: Vec<EOp> = vec![]; let mut obs: Vec<EObs> = vec![];
    let mut listed: Vec<Id> = vec![];
    let mut gone: Vec<Id> = vec![];      // removed and not offered again (guidance + direct check)
    let mut next_pl = 1u64;
    let mut trust_engine: Option<Arc<EigenTrustEngine>> = None;
    let nops = rng.range(20, 90) as usize;
    for step in 0..nops {
        let r = if step < 12 { rng.below(40) } else { rng.below(100) };
        let op = if r < 40 {
            let id = if rng.chance(1, 6) && !gone.is_empty() { *rng.pick(&gone) } else { *rng.pick(&pool) };
            let pl = next_pl; next_pl += 1; EOp::Add(id, pl)
        } else if r < 44 {
            let l: Vec<(Id, u64)> = (0..rng.range(1, 4)).map(|_| { next_pl += 1; (*rng.pick(&pool), next_pl - 1) }).collect(); EOp::Join(l)
        } else if r < 54 {
            EOp::Fail(if !listed.is_empty() && rng.chance(4, 5) { *rng.pick(&listed) } else { *rng.pick(&pool) })
        } else if r < 62 {
            EOp::Evict(if !listed.is_empty() && rng.chance(4, 5) { *rng.pick(&listed) } else { *rng.pick(&pool) })
        } else if r < 70 {
            // enable / disable trust selection
            match rng.below(5) {
                0 => EOp::SetSel(None, vec![]),
                _ => {
                    let pre: HashSet<AdaptiveNodeId> = pool.iter().filter(|_| rng.chance(1, 2)).map(|i| AdaptiveNodeId::from_bytes(*i)).collect();
                    let te = Arc::new(EigenTrustEngine::new(pre));
                    let tr: Vec<(Id, f64)> = pool.iter().map(|i| (*i, te.get_trust(&AdaptiveNodeId::from_bytes(*i)))).collect();
                    trust_engine = Some(te);
                    let q = match rng.below(3) { 0 => (0.3, 0.1, false), 1 => (0.3, 0.1, false), _ => (1.0, 0.5, true) };
                    let st = match rng.below(3) { 0 => (0.5, 0.2, true), 1 => (0.5, 0.2, true), _ => (0.0, 0.95, true) };
                    EOp::SetSel(Some((q, st)), tr)
                }
            }
        } else if r < 78 {
            EOp::Find(*rng.pick(&keys), *rng.pick(&[1u64, 3, 8, 20, 64]))
        } else if r < 89 {
            EOp::SelStorage(*rng.pick(&keys), *rng.pick(&[0u64, 1, 2, 3, 5, 8, 8, 8, 20]))
        } else {
            EOp::SelQuery(*rng.pick(&keys), *rng.pick(&[0u64, 1, 2, 3, 5, 8, 8, 8, 20]))
        };
        let o = match &op {
            EOp::Join(l) => { let r = eng.join_network(l.iter().map(|(id, pl)| info(id, *pl)).collect()).await;
                for (id, _) in l { gone.retain(|x| x != id); if !listed.contains(id) { listed.push(*id); } }
                if r.is_ok() { EObs::Ok } else { EObs::Err } }
            EOp::Add(id, pl) => { let r = eng.add_node(info(id, *pl)).await; gone.retain(|x| x != id);
                if r.is_ok() && !listed.contains(id) { listed.push(*id); }
                sum.count(if r.is_ok() { "eng:add:ok" } else { "eng:add:err" });
                if r.is_ok() { EObs::Ok } else { EObs::Err } }
            EOp::Fail(id) => { let r = eng.handle_node_failure(NodeId::from_bytes(*id)).await; listed.retain(|x| x != id); if !gone.contains(id) { gone.push(*id); }
                sum.count("eng:failure"); if r.is_ok() { EObs::Ok } else { EObs::Err } }
            EOp::Evict(id) => { let r = eng.evict_node(&NodeId::from_bytes(*id), EvictionReason::ConsecutiveFailures(3)).await; listed.retain(|x| x != id); if !gone.contains(id) { gone.push(*id); }
                sum.count("eng:evict"); if r.is_ok() { EObs::Ok } else { EObs::Err } }
            EOp::SetSel(None, _) => { eng.disable_trust_selection(); sum.count("eng:trust_selection:disabled"); EObs::Ok }
            EOp::SetSel(Some((q, st)), _) => {
                let te = trust_engine.clone().expect("trust engine");
                let qc = TrustSelectionConfig { trust_weight: q.0, min_trust_threshold: q.1, exclude_untrusted: q.2 };
                let sc = TrustSelectionConfig { trust_weight: st.0, min_trust_threshold: st.1, exclude_untrusted: st.2 };
                if *st == (0.5, 0.2, true) && rng.chance(1, 2) { eng.enable_trust_selection(te, qc); } else { eng.enable_trust_selection_with_storage_config(te, qc, sc); }
                sum.count("eng:trust_selection:enabled"); EObs::Ok }
            EOp::Find(k, c) => match eng.find_nodes(&DhtKey::from_bytes(*k), *c as usize).await { Ok(v) => EObs::Nodes(nodes_of(v)), Err(_) => EObs::Err },
            EOp::SelQuery(k, c) => { sum.count(if eng.has_trust_selection() { "eng:select_query:trust" } else { "eng:select_query:distance" });
                EObs::Nodes(nodes_of(eng.verif_select_query_peers(&DhtKey::from_bytes(*k), *c as usize).await)) }
            EOp::SelStorage(k, c) => {
                sum.count(if eng.has_trust_selection() { "eng:select_storage:trust" } else { "eng:select_storage:distance" });
                let v = nodes_of(eng.verif_select_storage_peers(&DhtKey::from_bytes(*k), *c as usize).await);
                if *c == 8 {
                    // the public path: store() reports the same selection in its receipt
                    if let Ok(rc) = eng.store(&DhtKey::from_bytes(*k), vec![1, 2, 3]).await {
                        let a: Vec<Id> = rc.stored_at.iter().map(|n| *n.as_bytes()).collect();
                        let b: Vec<Id> = v.iter().map(|n| n.0).collect();
                        if a != b { sum.violation(case_id, "store() receipt differs from select_storage_peers(key, K)", &[], json!({"receipt": a.iter().map(hx).collect::<Vec<_>>(), "selection": b.iter().map(hx).collect::<Vec<_>>() })); }
                        sum.count("eng:store_receipt_checked");
                    }
                }
                EObs::Nodes(v) }
        };
        // direct form of "an evicted or failed peer appears in no closest-node answer until it is added again"
        if let EObs::Nodes(l) = &o {
            sum.evaluations += 1;
            if let Some(bad) = l.iter().find(|n| gone.contains(&n.0)) {
                sum.violation(case_id, "a removed peer (handle_node_failure / evict_node, not offered again) appears in an answer", &[], json!({"peer": hx(&bad.0), "op": json_eop(&op)}));
            }
            if !gone.is_empty() { sum.count("eng:answer_with_removed_peers_outstanding"); }
        }
        ops.push(op); obs.push(o);
    }
    (local, ops, obs)
}

fn main() {
    let args = Args::parse();
    install_trace_sink();
    let rt = tokio::runtime::Builder::new_current_thread().enable_all().build().unwrap();
    let mut rng = Rng::new(args.seed);
    let mut sum = Summary::default();
    sum.rule = "three families. ev: one evaluation = one query (candidate set / reason / should_evict / should_evict_for_trust / failure count) answered by the real EvictionManager inside a generated event history, compared with Model/Eviction.v and with the policy read off the history. sel: one evaluation = one select_peers / select_storage_peers call of the real TrustAwarePeerSelector with a scripted TrustProvider, compared (order and addresses) with Model/Selector.v in bit-exact binary64. eng: one evaluation = one find_nodes / select_query_peers / select_storage_peers answer of the real DhtCoreEngine inside an add/join/failure/evict history. Non-trivial = a selection over >= 2 candidates, or a candidate-set query with >= 1 candidate; distinct = different (inputs, answer)".into();
    let thorough = args.thorough();
    let n_ev: u64 = args.extra.get("ev").and_then(|s| s.parse().ok()).unwrap_or(if thorough { 4000 } else { 400 });
    let n_sel: u64 = args.extra.get("sel").and_then(|s| s.parse().ok()).unwrap_or(if thorough { 12000 } else { 1200 });
    let n_eng: u64 = args.extra.get("eng").and_then(|s| s.parse().ok()).unwrap_or(if thorough { 400 } else { 40 });
    let mut seen: HashSet<u64> = HashSet::new();
    let mut distinct = |sum: &mut Summary, key: String| {
        use std::hash::{Hash, Hasher};
        let mut h = std::collections::hash_map::DefaultHasher::new(); key.hash(&mut h);
        if seen.insert(h.finish()) { sum.distinct_nontrivial += 1; }
    };
    let mut id = 0u64;

    // ---- eviction histories
    let mut w = CaseWriter::new(&args.out, "cases_c16ev", HEADER_EV, "fcase", "Eviction.check_case", "Eviction.prop_case", 100);
    for _ in 0..n_ev {
        let mut r2 = rng.fork();
        let (mx, thr, ops, obs) = run_ev_case(&mut r2, &mut sum);
        let term = format!("({}, {}, {}, {})", mx, fbits(thr), coq_list(ops.iter().map(coq_evop)), coq_list(obs.iter().map(coq_evobs)));
        w.push(id, term);
        if obs.iter().any(|o| matches!(o, EvObs::Cands(l) if !l.is_empty())) { distinct(&mut sum, format!("{:?}{:?}{}{:?}", ops, obs, mx, thr.to_bits())); }
        sum.count("family:eviction-history");
        sum.case(id, json!({"family": "eviction", "max_consecutive_failures": mx, "min_trust_threshold": fjson(thr),
            "ops": ops.iter().map(json_evop).collect::<Vec<_>>(), "observed": obs.iter().map(|o| format!("{:?}", o)).collect::<Vec<_>>()}));
        id += 1;
    }
    w.flush();

    // ---- selector calls
    let mut w = CaseWriter::new(&args.out, "cases_c16sel", HEADER_SEL, "scase", "check_sel", "prop_sel", 60);
    for _ in 0..n_sel {
        let mut r2 = rng.fork();
        let c = gen_sel_case(&mut r2, &mut sum);
        let mut nm = Names::default();
        let body = format!("({}, {}, {}, {}, {}, {}, {}, {})", fbits(c.w), fbits(c.mn), coq_bool(c.ex), nm.n(&c.key),
            coq_nodes(&mut nm, &c.cands),
            coq_list(c.trust.iter().map(|(i, t)| format!("({}, {})", nm.n(i), fbits(*t))).collect::<Vec<_>>()),
            c.count, coq_nodes(&mut nm, &c.res));
        w.push(id, format!("({}\n  {})", nm.defs.join(" "), body));
        sum.evaluations += 1;
        if c.cands.len() >= 2 { distinct(&mut sum, format!("{:?}{:?}{:?}{}{:?}{:?}{:?}", c.cands, c.trust.iter().map(|t| (t.0, t.1.to_bits())).collect::<Vec<_>>(), c.key, c.count, c.w.to_bits(), c.mn.to_bits(), c.ex)); }
        sum.count("family:selector-call");
        sum.case(id, json!({"family": "selector", "entry_point": c.entry, "config_kind": c.kind,
            "config": {"trust_weight": fjson(c.w), "min_trust_threshold": fjson(c.mn), "exclude_untrusted": c.ex},
            "key": hx(&c.key), "count": c.count, "candidates": json_nodes(&c.cands),
            "trust": c.trust.iter().map(|(i, t)| json!([hx(i), fjson(*t)])).collect::<Vec<_>>(),
            "selected": json_nodes(&c.res)}));
        id += 1;
    }
    w.flush();

    // ---- engine histories
    let mut w = CaseWriter::new(&args.out, "cases_c16eng", HEADER_SEL, "ecase", "check_eng", "prop_eng", 6);
    for _ in 0..n_eng {
        let mut r2 = rng.fork();
        let (local, ops, obs) = rt.block_on(gen_eng_case(id, &mut r2, &mut sum));
        let mut nm = Names::default();
        let body = format!("({}, {}, {})", nm.n(&local),
            coq_list(ops.iter().map(|o| coq_eop(&mut nm, o)).collect::<Vec<_>>()),
            coq_list(obs.iter().map(|o| coq_eobs(&mut nm, o)).collect::<Vec<_>>()));
        w.push(id, format!("({}\n  {})", nm.defs.join(" "), body));
        distinct(&mut sum, format!("{:?}{:?}", local, obs));
        sum.count("family:engine-history");
        sum.add("eng:ops_total", ops.len() as u64);
        sum.case(id, json!({"family": "engine", "local_id": hx(&local), "ops": ops.iter().map(json_eop).collect::<Vec<_>>(),
            "observed": obs.iter().map(json_eobs).collect::<Vec<_>>()}));
        id += 1;
    }
    w.flush();
    sum.write(&args.out);
}
