fn main() {}
