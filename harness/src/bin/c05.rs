//! C05 correspondence: the real inbound decoders of saorsa-core vs Model/Postcard.v + Model/Wire.v.
//!
//! Every decoder runs under `catch_unwind`; a panic is reported as a direct violation (the
//! model is total).  Byte strings are `prefix ++ fill^n` so that inputs of up to 128 KiB are
//! written to the Coq case files compactly and exactly.
use saorsa_core::dht::core_engine::{DhtCoreEngine, DhtKey, DhtRequestWrapper, DhtResponseWrapper, NodeCapacity, NodeId, NodeInfo, ConsistencyLevel};
use saorsa_core::dht::network_integration::{DhtMessage, DhtResponse, ErrorCode, RoutingInfo};
use saorsa_core::dht::DHTConfig;
use saorsa_core::dht_network_manager::*;
use saorsa_core::error::P2PError;
use saorsa_core::network::{NodeConfig, P2PEvent};
use saorsa_core::placement::dht_records::*;
use saorsa_core::transport_handle::{TransportConfig, TransportHandle};
use saorsa_core::verif_hooks::c05 as hooks;
use serde::{Deserialize, Serialize};
use serde_json::json;
use std::panic::{catch_unwind, AssertUnwindSafe};
use std::sync::Arc;
use std::time::{Duration, SystemTime, UNIX_EPOCH};
use vh::*;

const HEADER: &str = "From SV Require Import Lib.Base Model.Postcard Gen.Schemas Model.Wire.\nLocal Open Scope N_scope.";
const PREFIX_CAP: usize = 2048;

/// Coq list of bytes, written in chunks: the list notation parses super-linearly in its length
fn cb(b: &[u8]) -> String {
    if b.len() <= 256 { return coq_bytes(b); }
    format!("({})", b.chunks(256).map(coq_bytes).collect::<Vec<_>>().join(" ++ "))
}

// ------------------------------------------------------------------ blobs
#[derive(Clone, Debug)]
struct Blob { prefix: Vec<u8>, fill: u8, n: usize }
impl Blob {
    fn of(b: Vec<u8>) -> Blob {
        // move a constant tail into the fill part so that long inputs stay compact
        let mut k = b.len();
        if let Some(&last) = b.last() {
            while k > 0 && b[k - 1] == last { k -= 1; }
            if b.len() - k >= 64 { return Blob { prefix: b[..k].to_vec(), fill: last, n: b.len() - k }; }
        }
        Blob { prefix: b, fill: 0, n: 0 }
    }
    fn padded(mut self, fill: u8, n: usize) -> Blob {
        if self.n > 0 && self.fill != fill { let t = vec![self.fill; self.n]; self.prefix.extend(t); self.n = 0; }
        self.fill = fill; self.n += n; self
    }
    fn bytes(&self) -> Vec<u8> { let mut v = self.prefix.clone(); v.extend(std::iter::repeat(self.fill).take(self.n)); v }
    fn len(&self) -> usize { self.prefix.len() + self.n }
    fn ok_for_coq(&self) -> bool { self.prefix.len() <= PREFIX_CAP }
    fn coq(&self) -> String { format!("(mkBlob {} {} {})", cb(&self.prefix), self.fill, self.n) }
    fn json(&self) -> serde_json::Value { json!({"prefix_hex": hex::encode(&self.prefix), "fill": self.fill, "fill_len": self.n}) }
}

// ------------------------------------------------------------------ mirrors of the crate-private wire structs (encode only)
#[derive(Serialize)]
struct WireMirror { protocol: String, data: Vec<u8>, from: String, timestamp: u64 }
#[derive(Serialize)]
struct EnvMirror { message_id: String, is_response: bool, payload: Vec<u8> }

fn enc<T: Serialize>(v: &T) -> Vec<u8> { postcard::to_allocvec(v).expect("serialise") }

// ------------------------------------------------------------------ tiny postcard writer for hand-made (possibly invalid) inputs
fn put_varint(out: &mut Vec<u8>, mut n: u128) {
    loop { let b = (n & 0x7f) as u8; n >>= 7; if n == 0 { out.push(b); return; } out.push(b | 0x80); }
}
fn put_str(out: &mut Vec<u8>, s: &[u8]) { put_varint(out, s.len() as u128); out.extend_from_slice(s); }

// ------------------------------------------------------------------ random values of the public message types
const STRS: &[&str] = &["", "a", "/dht/1.0.0", "/rr/echo", "/rr/", "peer-1", "aaaaaaa\u{20ac}", "\u{10348}\u{e9}x", "0123456789abcdef0123456789abcdef0123456789abcdef0123456789abcdef", "\u{7ff}\u{800}\u{ffff}\u{10000}\u{10ffff}\u{d7ff}\u{e000}"];
fn rstr(r: &mut Rng) -> String {
    if r.chance(2, 3) { r.pick(STRS).to_string() } else { let n = r.below(12) as usize; hex::encode(r.bytes(n)) }
}
fn rvec(r: &mut Rng, max: u64) -> Vec<u8> { let n = r.below(max + 1) as usize; r.bytes(n) }
fn rkey(r: &mut Rng) -> [u8; 32] { let mut k = [0u8; 32]; k[31] = r.below(6) as u8; if r.chance(1, 4) { k.copy_from_slice(&r.bytes(32)); } k }
fn ru64(r: &mut Rng) -> u64 {
    match r.below(10) { 0 => 0, 1 => 127, 2 => 128, 3 => 16383, 4 => 16384, 5 => u32::MAX as u64, 6 => u64::MAX, 7 => u64::MAX - 1, 8 => 1 << 63, _ => r.next() >> r.below(64) }
}
fn rf64(r: &mut Rng) -> f64 { match r.below(4) { 0 => 1.0, 1 => f64::NAN, 2 => -0.0, _ => f64::from_bits(r.next()) } }
fn rdur(r: &mut Rng) -> Duration {
    match r.below(5) { 0 => Duration::ZERO, 1 => Duration::new(u64::MAX, 999_999_999), 2 => Duration::from_millis(50), _ => Duration::new(ru64(r), (r.next() % 1_000_000_000) as u32) }
}
fn rtime(r: &mut Rng) -> SystemTime {
    let secs = match r.below(4) { 0 => 0, 1 => i64::MAX as u64, 2 => now_secs(), _ => r.next() >> (1 + r.below(62)) };
    UNIX_EPOCH.checked_add(Duration::new(secs, (r.next() % 1_000_000_000) as u32)).unwrap_or(UNIX_EPOCH)
}
fn rdhtnode(r: &mut Rng) -> DHTNode {
    DHTNode { peer_id: rstr(r), address: rstr(r), distance: if r.chance(1, 2) { Some(rvec(r, 34)) } else { None }, reliability: rf64(r), cached_dht_key: None }
}
fn rop(r: &mut Rng, k: u64) -> DhtNetworkOperation {
    match k % 7 {
        0 => DhtNetworkOperation::Put { key: rkey(r), value: rvec(r, 40) },
        1 => DhtNetworkOperation::Get { key: rkey(r) },
        2 => DhtNetworkOperation::FindNode { key: rkey(r) },
        3 => DhtNetworkOperation::FindValue { key: rkey(r) },
        4 => DhtNetworkOperation::Ping,
        5 => DhtNetworkOperation::Join,
        _ => DhtNetworkOperation::Leave,
    }
}
fn rresult(r: &mut Rng, k: u64) -> DhtNetworkResult {
    match k % 9 {
        0 => DhtNetworkResult::PutSuccess { key: rkey(r), replicated_to: ru64(r) as usize,
            peer_outcomes: (0..r.below(3)).map(|_| PeerStoreOutcome { peer_id: rstr(r), success: r.chance(1, 2), error: if r.chance(1, 2) { Some(rstr(r)) } else { None } }).collect() },
        1 => DhtNetworkResult::GetSuccess { key: rkey(r), value: rvec(r, 30), source: rstr(r) },
        2 => DhtNetworkResult::GetNotFound { key: rkey(r), peers_queried: ru64(r) as usize, peers_failed: r.below(5) as usize, last_error: if r.chance(1, 2) { Some(rstr(r)) } else { None } },
        3 => DhtNetworkResult::NodesFound { key: rkey(r), nodes: (0..r.below(4)).map(|_| rdhtnode(r)).collect() },
        4 => DhtNetworkResult::ValueFound { key: rkey(r), value: rvec(r, 30), source: rstr(r) },
        5 => DhtNetworkResult::PongReceived { responder: rstr(r), latency: rdur(r) },
        6 => DhtNetworkResult::JoinSuccess { assigned_key: rkey(r), bootstrap_peers: r.below(300) as usize },
        7 => DhtNetworkResult::LeaveSuccess,
        _ => DhtNetworkResult::Error { operation: rstr(r), error: rstr(r) },
    }
}
fn rmsgtype(k: u64) -> DhtMessageType {
    match k % 4 { 0 => DhtMessageType::Request, 1 => DhtMessageType::Response, 2 => DhtMessageType::Broadcast, _ => DhtMessageType::Error }
}
fn dht_msg(r: &mut Rng, mt: u64, op: DhtNetworkOperation, result: Option<DhtNetworkResult>) -> DhtNetworkMessage {
    DhtNetworkMessage { message_id: rstr(r), source: rstr(r), target: if r.chance(1, 2) { Some(rstr(r)) } else { None },
        message_type: rmsgtype(mt), payload: op, result, timestamp: ru64(r), ttl: r.next() as u8, hop_count: r.next() as u8 }
}
fn rnodeinfo(r: &mut Rng) -> NodeInfo {
    NodeInfo { id: NodeId::from_bytes(rkey(r)), address: rstr(r), last_seen: rtime(r),
        capacity: NodeCapacity { storage_available: ru64(r), bandwidth_available: ru64(r), reliability_score: rf64(r) } }
}
fn rcoremsg(r: &mut Rng, k: u64) -> DhtMessage {
    let key = DhtKey::from_bytes(rkey(r));
    match k % 9 {
        0 => DhtMessage::Store { key, value: rvec(r, 40), ttl: rdur(r) },
        1 => DhtMessage::Retrieve { key, consistency: match r.below(3) { 0 => ConsistencyLevel::One, 1 => ConsistencyLevel::Quorum, _ => ConsistencyLevel::All } },
        2 => DhtMessage::FindNode { target: key, count: match r.below(6) { 0 => 19, 1 => 20, 2 => 21, 3 => 0, 4 => usize::MAX, _ => r.below(60) as usize } },
        3 => DhtMessage::FindValue { key },
        4 => DhtMessage::Ping { timestamp: ru64(r), sender_info: rnodeinfo(r) },
        5 => DhtMessage::Join { node_info: rnodeinfo(r), capacity: NodeCapacity { storage_available: ru64(r), bandwidth_available: 1, reliability_score: rf64(r) } },
        6 => DhtMessage::Leave { node_id: NodeId::from_bytes(rkey(r)), handoff_data: (0..r.below(3)).map(|_| (DhtKey::from_bytes(rkey(r)), NodeId::from_bytes(rkey(r)))).collect() },
        7 => DhtMessage::Replicate { key, value: rvec(r, 20), version: ru64(r) },
        _ => DhtMessage::RepairRequest { key, missing_shards: (0..r.below(4)).map(|_| ru64(r) as u32).collect() },
    }
}
fn rcoreresp(r: &mut Rng, k: u64) -> DhtResponse {
    match k % 8 {
        0 => DhtResponse::StoreAck { replicas: (0..r.below(3)).map(|_| NodeId::from_bytes(rkey(r))).collect() },
        1 => DhtResponse::RetrieveReply { value: if r.chance(1, 2) { Some(rvec(r, 20)) } else { None } },
        2 => DhtResponse::FindNodeReply { nodes: (0..r.below(3)).map(|_| rnodeinfo(r)).collect(), distances: (0..r.below(3)).map(|_| ru64(r) as u32).collect() },
        3 => DhtResponse::FindValueReply { value: if r.chance(1, 2) { Some(rvec(r, 20)) } else { None }, nodes: (0..r.below(3)).map(|_| rnodeinfo(r)).collect() },
        4 => DhtResponse::Pong { timestamp: ru64(r), node_info: rnodeinfo(r) },
        5 => DhtResponse::JoinAck { routing_info: RoutingInfo { bootstrap_nodes: (0..r.below(2)).map(|_| rnodeinfo(r)).collect(), network_size: ru64(r) as usize, protocol_version: ru64(r) as u32 }, neighbors: vec![] },
        6 => DhtResponse::LeaveAck { confirmed: r.chance(1, 2) },
        _ => DhtResponse::Error { code: match r.below(6) { 0 => ErrorCode::Timeout, 1 => ErrorCode::ConnectionFailed, 2 => ErrorCode::InvalidMessage, 3 => ErrorCode::NodeNotFound, 4 => ErrorCode::Overloaded, _ => ErrorCode::InternalError },
            message: rstr(r), retry_after: if r.chance(1, 2) { Some(rdur(r)) } else { None } },
    }
}
fn rhash(r: &mut Rng) -> SerializableHash { let mut k = [0u8; 32]; k.copy_from_slice(&r.bytes(32)); SerializableHash::from(k) }
fn ruser(r: &mut Rng) -> saorsa_core::peer_record::UserId { let mut k = [0u8; 32]; k.copy_from_slice(&r.bytes(32)); saorsa_core::peer_record::UserId::from_bytes(k) }
fn rsock(r: &mut Rng) -> std::net::SocketAddr {
    if r.chance(1, 2) { std::net::SocketAddr::from(([10, r.next() as u8, 0, 1], ru64(r) as u16)) }
    else { let mut a = [0u8; 16]; a.copy_from_slice(&r.bytes(16)); std::net::SocketAddr::from((a, ru64(r) as u16)) }
}
fn rrecord(r: &mut Rng, k: u64, sig_len: Option<usize>) -> DhtRecord {
    let sig = |r: &mut Rng| match sig_len { Some(n) => Some(vec![0u8; n]), None => if r.chance(1, 2) { Some(rvec(r, 20)) } else { None } };
    let data = match k % 4 {
        0 => DhtRecordData::NodeAd(NodeAd { node_id: ruser(r), addrs: (0..r.below(3)).map(|_| rsock(r)).collect(),
            caps: NodeCapabilities { disk_total: ru64(r), disk_free: ru64(r), donor_pct: r.next() as u8 },
            nat_type: match r.below(6) { 0 => NatType::None, 1 => NatType::FullCone, 2 => NatType::RestrictedCone, 3 => NatType::PortRestricted, 4 => NatType::Symmetric, _ => NatType::Unknown },
            asn: ru64(r) as u32, os_sig: OsSignature { family: rstr(r), arch: rstr(r), version_hash: [r.next() as u8; 8] }, ts: ru64(r),
            trust_hash: [r.next() as u8; 16], churn_hash: [r.next() as u8; 16], signature: sig(r) }),
        1 => DhtRecordData::GroupBeacon(GroupBeacon { group_id: rhash(r), policy: PlacementPolicy { fec: FecParams { data: ru64(r) as u16, parity: ru64(r) as u16 }, delta: ru64(r) as u16,
            scope: match r.below(3) { 0 => PolicyScope::Global, 1 => PolicyScope::Regional(rstr(r)), _ => PolicyScope::Group(rhash(r)) }, audit_pct: r.next() as u8 },
            member_root: rhash(r), guardians: (0..r.below(3)).map(|_| ruser(r)).collect(), ts: ru64(r), signature: sig(r) }),
        2 => DhtRecordData::DataPointer(DataPointer { cid: rhash(r), placement_ticket_ids: (0..r.below(4)).map(|_| rhash(r)).collect(), ts: ru64(r) }),
        _ => DhtRecordData::RegisterPointer(RegisterPointer { name_id: rhash(r), root_ref: rhash(r), version: ru64(r), ts: ru64(r), signature: sig(r) }),
    };
    DhtRecord { key: rhash(r), data, ttl: ru64(r) }
}

// ------------------------------------------------------------------ mutations
const EDGE: &[u8] = &[0, 1, 2, 3, 4, 9, 15, 16, 0x7f, 0x80, 0x81, 0xc0, 0xc2, 0xe0, 0xed, 0xf0, 0xf4, 0xf5, 0xff];
fn mutate(r: &mut Rng, base: &[u8]) -> (Vec<u8>, &'static str) {
    let mut b = base.to_vec();
    if b.is_empty() { return (vec![*r.pick(EDGE)], "mut:from-empty"); }
    let i = r.below(b.len() as u64) as usize;
    match r.below(12) {
        0 | 1 => { b[i] = *r.pick(EDGE); (b, "mut:edge-byte") }
        2 => { b[i] = b[i].wrapping_add(1); (b, "mut:plus1") }
        3 => { b[i] = b[i].wrapping_sub(1); (b, "mut:minus1") }
        4 => { b[i] ^= 0x80; (b, "mut:flip-cont-bit") }
        5 => { b.truncate(i); (b, "mut:truncate") }
        6 => { let x = b[i]; if x < 0x80 { b[i] = x | 0x80; b.insert(i + 1, 0); } (b, "mut:overlong-varint") }
        7 => { b.insert(i, *r.pick(EDGE)); (b, "mut:insert") }
        8 => { b.remove(i); (b, "mut:delete") }
        9 => { // huge length / count: replace one byte by a maximal varint
            let k = *r.pick(&[5usize, 9, 10, 11]); let last = *r.pick(&[0x00u8, 0x01, 0x02, 0x0f, 0x10, 0x7f]);
            let mut v = vec![0xffu8; k - 1]; v.push(last); b.splice(i..i + 1, v); (b, "mut:max-varint") }
        10 => { let j = r.below(b.len() as u64) as usize; b[j] = *r.pick(EDGE); b[i] = *r.pick(EDGE); (b, "mut:two-bytes") }
        _ => { let n = r.range(1, 40) as usize; let t = r.bytes(n); b.extend(t); (b, "mut:append") }
    }
}

// ------------------------------------------------------------------ observations
type DecObs = Option<(Vec<u8>, usize)>;
fn coq_decobs(o: &DecObs) -> String {
    match o { None => "None".into(), Some((b, n)) => format!("(Some ({}, {}))", cb(b), n) }
}
fn take<T: for<'a> Deserialize<'a> + Serialize>(b: &[u8]) -> DecObs {
    let (v, rest) = postcard::take_from_bytes::<T>(b).ok()?;
    Some((postcard::to_allocvec(&v).ok()?, rest.len()))
}
#[derive(Clone, Copy, Debug, PartialEq)]
enum Root { Wire, Env, DhtNet, CoreReq, CoreResp, Record }
impl Root {
    fn coq(self) -> &'static str {
        match self { Root::Wire => "S_WireMessage", Root::Env => "S_RequestResponseEnvelope", Root::DhtNet => "S_DhtNetworkMessage",
            Root::CoreReq => "S_DhtRequestWrapper", Root::CoreResp => "S_DhtResponseWrapper", Root::Record => "S_DhtRecord" }
    }
    fn decode(self, b: &[u8]) -> DecObs {
        match self {
            Root::Wire => hooks::wire_message_reencode(b),
            Root::Env => hooks::envelope_reencode(b),
            Root::DhtNet => take::<DhtNetworkMessage>(b),
            Root::CoreReq => take::<DhtRequestWrapper>(b),
            Root::CoreResp => take::<DhtResponseWrapper>(b),
            Root::Record => take::<DhtRecord>(b),
        }
    }
    fn valid(self, r: &mut Rng) -> Vec<u8> {
        let k = r.next();
        match self {
            Root::Wire => enc(&WireMirror { protocol: rstr(r), data: rvec(r, 40), from: rstr(r), timestamp: ru64(r) }),
            Root::Env => enc(&EnvMirror { message_id: rstr(r), is_response: r.chance(1, 2), payload: rvec(r, 40) }),
            Root::DhtNet => { let op = rop(r, k); let res = if r.chance(2, 3) { Some(rresult(r, k / 7)) } else { None }; enc(&dht_msg(r, k / 63, op, res)) }
            Root::CoreReq => enc(&DhtRequestWrapper { id: rstr(r), message: rcoremsg(r, k) }),
            Root::CoreResp => enc(&DhtResponseWrapper { id: rstr(r), response: rcoreresp(r, k) }),
            Root::Record => enc(&rrecord(r, k, None)),
        }
    }
}
const ROOTS: &[Root] = &[Root::Wire, Root::Env, Root::DhtNet, Root::CoreReq, Root::CoreResp, Root::Record];

fn guarded<T>(sum: &mut Summary, id: u64, what: &str, blob: &Blob, f: impl FnOnce() -> T) -> Option<T> {
    match catch_unwind(AssertUnwindSafe(f)) {
        Ok(v) => Some(v),
        Err(e) => {
            let msg = e.downcast_ref::<String>().cloned().or_else(|| e.downcast_ref::<&str>().map(|s| s.to_string())).unwrap_or_default();
            sum.violation(id, &format!("{} panicked on hostile input", what), &[], json!({"input": blob.json(), "panic": msg}));
            None
        }
    }
}

// ------------------------------------------------------------------ DHT manager / core engine observations
#[derive(Clone, Debug, PartialEq)]
enum DRes { RejSize, RejDecode, RejValue, RejStore, Reply(u8, Option<Vec<u8>>), NoReply, Other(String) }
fn coq_dres(d: &DRes) -> String {
    match d {
        DRes::RejSize => "DRejSize".into(), DRes::RejDecode => "DRejDecode".into(), DRes::RejValue => "DRejValue".into(), DRes::RejStore => "DRejStore".into(),
        DRes::NoReply => "DNoReply".into(),
        DRes::Reply(v, val) => format!("(DReply {} {})", v, coq_opt(val.as_ref().map(|b| cb(b)))),
        DRes::Other(_) => "(DReply 999 None)".into(),
    }
}
fn classify_dht(res: saorsa_core::Result<Option<Vec<u8>>>) -> DRes {
    match res {
        Ok(None) => DRes::NoReply,
        Ok(Some(bytes)) => match postcard::from_bytes::<DhtNetworkMessage>(&bytes) {
            Ok(m) => match m.result {
                Some(r) => {
                    let tag = enc(&r)[0];
                    let val = match r { DhtNetworkResult::GetSuccess { value, .. } | DhtNetworkResult::ValueFound { value, .. } => Some(value), _ => None };
                    DRes::Reply(tag, val)
                }
                None => DRes::Other("reply without result".into()),
            },
            Err(e) => DRes::Other(format!("undecodable reply: {e}")),
        },
        Err(P2PError::Validation(m)) if m.contains("Message size") => DRes::RejSize,
        Err(P2PError::Validation(m)) if m.contains("Value size") => DRes::RejValue,
        Err(P2PError::Serialization(_)) => DRes::RejDecode,
        Err(P2PError::Dht(_)) => DRes::RejStore,
        Err(e) => DRes::Other(format!("{e}")),
    }
}
async fn new_manager(tag: u64) -> Option<DhtNetworkManager> {
    let peer_id = format!("c05_node_{tag}");
    let node_config = NodeConfig::builder().peer_id(peer_id.clone()).listen_port(0).ipv6(false).build().ok()?;
    let transport = Arc::new(TransportHandle::new(TransportConfig {
        peer_id: peer_id.clone(), listen_addr: node_config.listen_addr, enable_ipv6: node_config.enable_ipv6,
        connection_timeout: node_config.connection_timeout, stale_peer_threshold: node_config.stale_peer_threshold,
        max_connections: node_config.max_connections, production_config: node_config.production_config.clone(),
        event_channel_capacity: saorsa_core::DEFAULT_EVENT_CHANNEL_CAPACITY }).await.ok()?);
    let config = DhtNetworkConfig { local_peer_id: peer_id, dht_config: DHTConfig::default(), node_config,
        request_timeout: Duration::from_secs(2), max_concurrent_operations: 10, replication_factor: 8, enable_security: false };
    DhtNetworkManager::new(transport, None, config).await.ok()
}

/// a PUT/GET/... request frame; `big` puts a zero-filled value of that size so that the tail is constant
fn dht_frame(r: &mut Rng, keys: &mut Vec<[u8; 32]>) -> (Blob, &'static str) {
    let known = |r: &mut Rng, keys: &Vec<[u8; 32]>| if !keys.is_empty() && r.chance(3, 4) { *r.pick(keys) } else { rkey(r) };
    let mut m = dht_msg(r, 0, DhtNetworkOperation::Ping, None);
    m.timestamp = 0; m.ttl = 0; m.hop_count = 0;
    match r.below(16) {
        0..=4 => {
            let n = *r.pick(&[0usize, 1, 100, 511, 512, 513, 514, 600, 1024, 4096, 60000, 65000]);
            let key = rkey(r); keys.push(key);
            let value = if n <= 600 && r.chance(1, 2) { r.bytes(n) } else { vec![0u8; n] };
            m.payload = DhtNetworkOperation::Put { key, value };
            (Blob::of(enc(&m)), "dht:put")
        }
        5 | 6 => { m.payload = DhtNetworkOperation::Get { key: known(r, keys) }; (Blob::of(enc(&m)), "dht:get") }
        7 | 8 => { m.payload = DhtNetworkOperation::FindValue { key: known(r, keys) }; (Blob::of(enc(&m)), "dht:find_value") }
        9 => { let k = 2 + 2 * r.below(3); m.payload = rop(r, k); (Blob::of(enc(&m)), "dht:find_node/ping/leave") }
        10 => { m.payload = DhtNetworkOperation::Join; (Blob::of(enc(&m)), "dht:join") }
        11 => { let k = r.next(); m.message_type = rmsgtype(1 + r.below(3)); m.result = Some(rresult(r, k)); (Blob::of(enc(&m)), "dht:non-request") }
        12 => { // boundary of the 64 KiB gate: a complete valid message padded with ignored trailing zeros
            m.payload = DhtNetworkOperation::Put { key: { let k = rkey(r); keys.push(k); k }, value: r.bytes(8) };
            let b = enc(&m); let total = *r.pick(&[65535usize, 65536, 65537, 70000, 131072]);
            let pad = total - b.len(); (Blob::of(b).padded(0, pad), "dht:size-gate")
        }
        13 => { let n = *r.pick(&[65535usize, 65536, 65537, 131072]); (Blob { prefix: r.bytes(16), fill: r.next() as u8, n: n - 16 }, "dht:size-gate-garbage") }
        14 => { let b = Root::DhtNet.valid(r); let (x, _) = mutate(r, &b); (Blob::of(x), "dht:mutated") }
        _ => { let n = r.below(40) as usize; (Blob::of(r.bytes(n)), "dht:random") }
    }
}

#[derive(Clone, Debug, PartialEq)]
enum CRes { StoreAck, TooLarge, Retrieve(Option<Vec<u8>>), FindNode(usize), FindValue(Option<Vec<u8>>, usize), Pong, Unsupported, Undecodable, Other(String) }
fn coq_cres(c: &CRes) -> String {
    let ob = |v: &Option<Vec<u8>>| coq_opt(v.as_ref().map(|b| cb(b)));
    match c {
        CRes::StoreAck => "CStoreAck".into(), CRes::TooLarge => "CTooLarge".into(), CRes::Pong => "CPong".into(),
        CRes::Unsupported => "CUnsupported".into(), CRes::Undecodable => "CUndecodable".into(),
        CRes::Retrieve(v) => format!("(CRetrieve {})", ob(v)), CRes::FindNode(n) => format!("(CFindNode {})", n),
        CRes::FindValue(v, n) => format!("(CFindValue {} {})", ob(v), n), CRes::Other(_) => "(CFindNode 999999)".into(),
    }
}
fn classify_core(r: DhtResponse) -> CRes {
    match r {
        DhtResponse::StoreAck { .. } => CRes::StoreAck,
        DhtResponse::RetrieveReply { value } => CRes::Retrieve(value),
        DhtResponse::FindNodeReply { nodes, .. } => CRes::FindNode(nodes.len()),
        DhtResponse::FindValueReply { value, nodes } => CRes::FindValue(value, nodes.len()),
        DhtResponse::Pong { .. } => CRes::Pong,
        DhtResponse::Error { message, .. } if message.starts_with("Value too large") => CRes::TooLarge,
        DhtResponse::Error { message, .. } if message.starts_with("Unsupported") => CRes::Unsupported,
        other => CRes::Other(format!("{other:?}")),
    }
}
fn core_frame(r: &mut Rng, keys: &mut Vec<[u8; 32]>) -> (Blob, &'static str) {
    let known = |r: &mut Rng, keys: &Vec<[u8; 32]>| DhtKey::from_bytes(if !keys.is_empty() && r.chance(3, 4) { *r.pick(keys) } else { rkey(r) });
    let wrap = |r: &mut Rng, m: DhtMessage| Blob::of(enc(&DhtRequestWrapper { id: rstr(r), message: m }));
    match r.below(14) {
        0..=3 => {
            let n = *r.pick(&[0usize, 1, 511, 512, 513, 600, 2000]); let key = rkey(r); keys.push(key);
            let value = if r.chance(1, 2) { r.bytes(n) } else { vec![0u8; n] };
            (wrap(r, DhtMessage::Store { key: DhtKey::from_bytes(key), value, ttl: Duration::ZERO }), "core:store")
        }
        4 | 5 => { let k = known(r, keys); (wrap(r, DhtMessage::Retrieve { key: k, consistency: ConsistencyLevel::One }), "core:retrieve") }
        6..=8 => {
            let count = *r.pick(&[0usize, 1, 8, 19, 20, 21, 22, 40, 41, 1000, usize::MAX / 2, usize::MAX / 2 + 1, usize::MAX]);
            let target = DhtKey::from_bytes(rkey(r)); (wrap(r, DhtMessage::FindNode { target, count }), "core:find_node")
        }
        9 => { let k = known(r, keys); (wrap(r, DhtMessage::FindValue { key: k }), "core:find_value") }
        10 => { let k = r.next(); let m = rcoremsg(r, k); (wrap(r, m), "core:any") }
        11 | 12 => { let b = Root::CoreReq.valid(r); let (x, _) = mutate(r, &b); (Blob::of(x), "core:mutated") }
        _ => { let n = r.below(40) as usize; (Blob::of(r.bytes(n)), "core:random") }
    }
}
async fn new_core(avail: usize) -> Option<DhtCoreEngine> {
    let mut e = DhtCoreEngine::new(NodeId::from_bytes([0u8; 32])).ok()?;
    // peers spread over buckets 0.. so that no bucket overflows (8 per bucket)
    let mut nodes = vec![];
    for i in 0..avail {
        let bucket = i / 8; let mut id = [0u8; 32];
        id[bucket / 8] |= 0x80 >> (bucket % 8); id[31] = (i % 8) as u8 + 1; id[30] = bucket as u8;
        nodes.push(NodeInfo { id: NodeId::from_bytes(id), address: format!("10.0.{}.{}:9000", bucket, i % 8 + 1), last_seen: SystemTime::now(), capacity: NodeCapacity::default() });
    }
    e.join_network(nodes).await.ok()?;
    Some(e)
}

// ------------------------------------------------------------------ F05a: hostile NodesFound reply during a real lookup
/// Node A (real DhtNetworkManager) looks a key up; its only peer B is a bare transport driven by
/// this harness over loopback QUIC (the way the repository's own integration tests connect
/// nodes) and answers the FIND_VALUE with a NodesFound reply naming peers whose ids have a
/// multi-byte character across byte 8.  Returns Ok(description) if the lookup future returned,
/// Err(description) if it panicked or the scenario could not be set up ("setup:" prefix).
async fn f05a_live(tag: u64) -> Result<String, String> {
    let mk = |peer_id: String| async move {
        let node_config = NodeConfig::builder().peer_id(peer_id.clone()).listen_port(0).ipv6(false).build().map_err(|e| format!("setup: {e}"))?;
        let transport = Arc::new(TransportHandle::new(TransportConfig {
            peer_id: peer_id.clone(), listen_addr: node_config.listen_addr, enable_ipv6: node_config.enable_ipv6,
            connection_timeout: Duration::from_secs(3), stale_peer_threshold: node_config.stale_peer_threshold,
            max_connections: node_config.max_connections, production_config: node_config.production_config.clone(),
            event_channel_capacity: saorsa_core::DEFAULT_EVENT_CHANNEL_CAPACITY }).await.map_err(|e| format!("setup: {e}"))?);
        transport.start_network_listeners().await.map_err(|e| format!("setup: {e}"))?;
        Ok::<_, String>((transport, node_config))
    };
    let (ta, cfg_a) = mk(format!("c05_f05a_a_{tag}")).await?;
    let (tb, _) = mk(format!("c05_f05a_b_{tag}")).await?;
    let config = DhtNetworkConfig { local_peer_id: format!("c05_f05a_a_{tag}"), dht_config: DHTConfig::default(), node_config: cfg_a,
        request_timeout: Duration::from_secs(4), max_concurrent_operations: 10, replication_factor: 8, enable_security: false };
    let a = Arc::new(DhtNetworkManager::new(ta.clone(), None, config).await.map_err(|e| format!("setup: {e}"))?);
    a.start().await.map_err(|e| format!("setup: {e}"))?;
    // hostile peer: answer every DHT request with a NodesFound reply carrying non-ASCII peer ids
    let mut ev = tb.subscribe_events();
    let tb2 = tb.clone();
    let answered = Arc::new(std::sync::atomic::AtomicUsize::new(0));
    let answered2 = answered.clone();
    let responder = tokio::spawn(async move {
        while let Ok(e) = ev.recv().await {
            if let P2PEvent::Message { topic, source, data } = e {
                if topic != "/dht/1.0.0" { continue; }
                let Ok(req) = postcard::from_bytes::<DhtNetworkMessage>(&data) else { continue };
                if !matches!(req.message_type, DhtMessageType::Request) { continue; }
                let key = match &req.payload { DhtNetworkOperation::FindValue { key } | DhtNetworkOperation::FindNode { key } | DhtNetworkOperation::Get { key } => *key, _ => [0u8; 32] };
                let nodes = ["aaaaaaa\u{20ac}", "\u{20ac}\u{20ac}\u{20ac}", "aaaaaa\u{e9}\u{e9}", "1234567\u{10348}"].iter().map(|id| DHTNode {
                    peer_id: id.to_string(), address: "127.0.0.1:1".into(), distance: None, reliability: 1.0, cached_dht_key: None }).collect();
                let reply = DhtNetworkMessage { message_id: req.message_id.clone(), source: "hostile".into(), target: Some(source.clone()),
                    message_type: DhtMessageType::Response, payload: req.payload.clone(), result: Some(DhtNetworkResult::NodesFound { key, nodes }),
                    timestamp: now_secs(), ttl: 0, hop_count: 0 };
                let _ = tb2.send_message(&source, "/dht/1.0.0", enc(&reply)).await;
                answered2.fetch_add(1, std::sync::atomic::Ordering::SeqCst);
            }
        }
    });
    let addr_b = tb.local_addr().ok_or("setup: hostile transport has no local address")?;
    let addr_b = addr_b.replace("0.0.0.0", "127.0.0.1");
    let connected = tokio::time::timeout(Duration::from_secs(10), a.connect_to_peer(&addr_b)).await;
    match connected { Ok(Ok(_)) => {}, Ok(Err(e)) => return Err(format!("setup: connect failed: {e}")), Err(_) => return Err("setup: connect timed out".into()) }
    tokio::time::sleep(Duration::from_millis(300)).await;
    let a2 = a.clone();
    let key = [0x5au8; 32];
    let lookup = tokio::spawn(async move { a2.get(&key).await.map(|r| format!("{:?}", std::mem::discriminant(&r))).map_err(|e| e.to_string()) });
    let out = match tokio::time::timeout(Duration::from_secs(60), lookup).await {
        Err(_) => Err("lookup did not finish within 60 s".to_string()),
        Ok(Err(join)) if join.is_panic() => {
            let p = join.into_panic();
            let msg = p.downcast_ref::<String>().cloned().or_else(|| p.downcast_ref::<&str>().map(|s| s.to_string())).unwrap_or_default();
            Err(format!("lookup task panicked: {msg}"))
        }
        Ok(Err(join)) => Err(format!("lookup task failed: {join}")),
        Ok(Ok(r)) => Ok(format!("lookup returned {:?}; hostile replies sent: {}", r, answered.load(std::sync::atomic::Ordering::SeqCst))),
    };
    responder.abort();
    let n = answered.load(std::sync::atomic::Ordering::SeqCst);
    let _ = tokio::time::timeout(Duration::from_secs(5), a.stop()).await;
    let _ = tokio::time::timeout(Duration::from_secs(5), ta.stop()).await;
    let _ = tokio::time::timeout(Duration::from_secs(5), tb.stop()).await;
    if n == 0 && out.is_ok() { return Err("setup: the hostile peer was never queried".into()); }
    out
}

#[derive(Clone, Debug, PartialEq)]
enum RRes { TooLarge(usize), DecodeErr, Ok(Vec<u8>), Other(String) }
fn coq_rres(r: &RRes) -> String {
    match r { RRes::TooLarge(n) => format!("(RTooLarge {})", n), RRes::DecodeErr => "RDecodeErr".into(), RRes::Ok(b) => format!("(ROk {})", cb(b)), RRes::Other(_) => "(RTooLarge 0)".into() }
}

fn main() {
    let args = Args::parse();
    install_trace_sink();
    std::panic::set_hook(Box::new(|_| {}));
    let rt = tokio::runtime::Builder::new_multi_thread().worker_threads(4).enable_all().build().unwrap();
    let mut rng = Rng::new(args.seed);
    let mut sum = Summary::default();
    sum.rule = "per decoder: valid messages of every kind from the real types, byte-level mutants of them at every position class (edge bytes on tags/length prefixes/bools, +-1, continuation-bit flips, truncation, overlong varints, maximal varints, insert/delete/append), random bytes (mostly short, up to 128 KiB), hand-made Duration/SystemTime overflow edges; parse_protocol_message with timestamps at the window edges +-1 s and claimed senders different from the connection id; DHT manager and core engine request sequences with values 511/512/513 bytes, message sizes 65535/65536/65537, find-node counts 19/20/21/usize::MAX; records of 511/512/513 bytes. Non-trivial = accepted by the real decoder or rejected after the first 2 bytes; distinct = different input bytes".into();
    let mut w = CaseWriter::new(&args.out, "cases_c05", HEADER, "wcase", "check_case", "prop_case", 120);
    // request sequences are much heavier per case (long frames): small shards so that they evaluate in parallel
    let mut wd = CaseWriter::new(&args.out, "cases_c05dht", HEADER, "wcase", "check_case", "prop_case", 5);
    let mut wc = CaseWriter::new(&args.out, "cases_c05core", HEADER, "wcase", "check_case", "prop_case", 12);
    let scale = if args.thorough() { 6 } else { 1 };
    let mut id = 0u64;
    let mut seen = std::collections::HashSet::new();

    // ---------------------------------------------------------------- 1. differential decoding, every root type
    let n_dec = 1080 * scale;
    for i in 0..n_dec {
        let root = ROOTS[(i % ROOTS.len() as u64) as usize];
        let (blob, kind): (Blob, &str) = match rng.below(20) {
            0..=3 => (Blob::of(root.valid(&mut rng)), "valid"),
            4..=13 => { let b = root.valid(&mut rng); let (m, k) = mutate(&mut rng, &b); (Blob::of(m), k) }
            14 => { let b = root.valid(&mut rng); let (m, _) = mutate(&mut rng, &b); let (m2, _) = mutate(&mut rng, &m); (Blob::of(m2), "mut:double") }
            15 | 16 => { let n = rng.below(24) as usize; (Blob::of(rng.bytes(n)), "random:short") }
            17 => { let n = rng.range(24, 600) as usize; (Blob::of(rng.bytes(n)), "random:medium") }
            18 => { // long: random head, constant tail, up to 128 KiB
                let n = *rng.pick(&[4096usize, 65536, 65537, 131072]); let h = rng.below(64) as usize;
                (Blob { prefix: rng.bytes(h), fill: *rng.pick(EDGE), n: n - h }, "random:long") }
            _ => { // valid message followed by a long ignored tail
                let b = root.valid(&mut rng); let n = *rng.pick(&[1usize, 100, 70000]); (Blob::of(b).padded(rng.next() as u8, n), "valid+trailing") }
        };
        if !blob.ok_for_coq() { continue; }
        let bytes = blob.bytes();
        let Some(obs) = guarded(&mut sum, id, &format!("postcard decode of {}", root.coq()), &blob, || root.decode(&bytes)) else { id += 1; continue };
        w.push(id, format!("KDec {} {} {}", root.coq(), blob.coq(), coq_decobs(&obs)));
        sum.case(id, json!({"kind": "decode", "type": root.coq(), "gen": kind, "input": blob.json(), "accepted": obs.is_some()}));
        sum.count(&format!("decode:{}", kind)); sum.count(if obs.is_some() { "decode:accepted" } else { "decode:rejected" });
        sum.add("decode:input_bytes", blob.len() as u64);
        let nontrivial = obs.is_some() || bytes.len() > 2;
        if nontrivial && seen.insert(bytes) { sum.distinct_nontrivial += 1; }
        sum.evaluations += 1; id += 1;
    }
    // hand-made Duration / SystemTime edges inside a DhtRequestWrapper
    for (secs, nanos) in [(u64::MAX as u128, 0u128), (u64::MAX as u128, 999_999_999), (u64::MAX as u128, 1_000_000_000), (u64::MAX as u128 - 4, 4_294_967_295), (u64::MAX as u128 - 3, 4_294_967_295),
                          (i64::MAX as u128, 999_999_999), (i64::MAX as u128, 1_000_000_000), (i64::MAX as u128 + 1, 0), (5, 3_999_999_999), (1u128 << 64, 0), (0, 1u128 << 32)] {
        for which in 0..2 {
            let mut b = vec![]; put_str(&mut b, b"x");
            if which == 0 { put_varint(&mut b, 0); b.extend([0u8; 32]); put_str(&mut b, b"v"); put_varint(&mut b, secs); put_varint(&mut b, nanos); }
            else { put_varint(&mut b, 4); put_varint(&mut b, 7); b.extend([0u8; 32]); put_str(&mut b, b"a"); put_varint(&mut b, secs); put_varint(&mut b, nanos);
                   put_varint(&mut b, 1); put_varint(&mut b, 2); b.extend(1.0f64.to_le_bytes()); }
            let blob = Blob::of(b); let bytes = blob.bytes();
            let Some(obs) = guarded(&mut sum, id, "postcard decode of S_DhtRequestWrapper", &blob, || Root::CoreReq.decode(&bytes)) else { id += 1; continue };
            w.push(id, format!("KDec S_DhtRequestWrapper {} {}", blob.coq(), coq_decobs(&obs)));
            sum.case(id, json!({"kind": "decode", "type": "S_DhtRequestWrapper", "gen": "time-edge", "secs": secs.to_string(), "nanos": nanos.to_string(), "input": blob.json(), "accepted": obs.is_some()}));
            sum.count("decode:time-edge"); sum.evaluations += 1; sum.distinct_nontrivial += 1; id += 1;
        }
    }

    // ---------------------------------------------------------------- 2. parse_protocol_message: window and source
    let n_ppm = 320 * scale;
    for _ in 0..n_ppm {
        let src = match rng.below(4) { 0 => "transport-peer".to_string(), 1 => "".to_string(), 2 => "p\u{e9}er-\u{20ac}".to_string(), _ => hex::encode(rng.bytes(32)) };
        let from = match rng.below(3) { 0 => src.clone(), 1 => "spoofed-identity".to_string(), _ => rstr(&mut rng) };
        let t = now_secs();
        let delta: i64 = match rng.below(16) { 0 => -301, 1 => -300, 2 => -299, 3 => 29, 4 => 30, 5 => 31, 6 => 0, 7 => -302, 8 => 32, 9 => -1000, 10 => 1000, _ => rng.range(0, 700) as i64 - 350 };
        let ts = match rng.below(14) { 0 => 0, 1 => u64::MAX, 2 => u64::MAX - 29, _ => (t as i64 + delta) as u64 };
        let inner = match rng.below(3) { 0 => enc(&EnvMirror { message_id: rstr(&mut rng), is_response: rng.chance(1, 2), payload: rvec(&mut rng, 20) }), 1 => b"keepalive".to_vec(), _ => rvec(&mut rng, 30) };
        let valid = enc(&WireMirror { protocol: rstr(&mut rng), data: inner, from: from.clone(), timestamp: ts });
        let (blob, kind) = match rng.below(8) {
            0..=4 => (Blob::of(valid), "ppm:valid-shape"),
            5 => { let (m, _) = mutate(&mut rng, &valid); (Blob::of(m), "ppm:mutated") }
            6 => (Blob::of(valid).padded(0xff, *rng.pick(&[1usize, 3000, 100000])), "ppm:trailing"),
            _ => { let n = rng.below(30) as usize; (Blob::of(rng.bytes(n)), "ppm:random") }
        };
        if !blob.ok_for_coq() { continue; }
        let bytes = blob.bytes();
        let t0 = now_secs();
        let Some(ev) = guarded(&mut sum, id, "parse_protocol_message", &blob, || hooks::parse_protocol_message(&bytes, &src)) else { id += 1; continue };
        if now_secs() != t0 { sum.discarded_ambiguous += 1; continue; }
        let obs = match ev {
            None => "None".to_string(),
            Some(P2PEvent::Message { topic, source, data }) => {
                if source != src { sum.violation(id, "surfaced source differs from the connection's peer id", &[], json!({"connection": src, "surfaced": source, "claimed_from": from})); }
                format!("(Some ({}, {}, {}))", cb(topic.as_bytes()), cb(source.as_bytes()), cb(&data))
            }
            Some(other) => { sum.violation(id, "parse_protocol_message returned a non-message event", &[], json!(format!("{other:?}"))); "None".to_string() }
        };
        w.push(id, format!("KPpm {} {} {} {}", t0, coq_bytes(src.as_bytes()), blob.coq(), obs));
        sum.case(id, json!({"kind": "parse_protocol_message", "gen": kind, "now": t0, "ts_minus_now": (ts as i128 - t0 as i128).to_string(), "connection_id": src, "claimed_from": from, "input": blob.json(), "surfaced": obs != "None"}));
        sum.count(kind); sum.count(if obs == "None" { "ppm:rejected" } else { "ppm:surfaced" });
        if kind == "ppm:valid-shape" { sum.count(&format!("ppm:delta:{}", if (-302..=-298).contains(&delta) || (28..=32).contains(&delta) { "window-edge" } else { "other" })); }
        if seen.insert(bytes) { sum.distinct_nontrivial += 1; }
        sum.evaluations += 1; id += 1;
    }

    // ---------------------------------------------------------------- 3. parse_request_envelope
    for _ in 0..(120 * scale) {
        let valid = enc(&EnvMirror { message_id: rstr(&mut rng), is_response: rng.chance(1, 2), payload: rvec(&mut rng, 30) });
        let blob = match rng.below(4) { 0 | 1 => Blob::of(valid), 2 => { let (m, _) = mutate(&mut rng, &valid); Blob::of(m) } _ => { let n = rng.below(12) as usize; Blob::of(rng.bytes(n)) } };
        let bytes = blob.bytes();
        let Some(o) = guarded(&mut sum, id, "parse_request_envelope", &blob, || TransportHandle::parse_request_envelope(&bytes)) else { id += 1; continue };
        let obs = match &o { None => "None".to_string(), Some((i, r, p)) => format!("(Some ({}, {}, {}))", cb(i.as_bytes()), coq_bool(*r), cb(p)) };
        w.push(id, format!("KEnv {} {}", blob.coq(), obs));
        sum.case(id, json!({"kind": "parse_request_envelope", "input": blob.json(), "accepted": o.is_some()}));
        sum.count(if o.is_some() { "env:accepted" } else { "env:rejected" });
        if seen.insert(bytes) { sum.distinct_nontrivial += 1; }
        sum.evaluations += 1; id += 1;
    }

    // ---------------------------------------------------------------- 4. DhtNetworkManager::handle_dht_message on a node without peers
    let n_dht = 30 * scale;
    let mut dht_ok = 0;
    for s in 0..n_dht {
        let Some(mgr) = rt.block_on(new_manager(args.seed * 100000 + s)) else { sum.count("dht:manager-unavailable"); continue };
        dht_ok += 1;
        let mut keys = vec![]; let mut frames = vec![]; let mut descr = vec![];
        let nframes = rng.range(4, 12);
        let mut broken = false;
        for _ in 0..nframes {
            let (blob, kind) = dht_frame(&mut rng, &mut keys);
            if !blob.ok_for_coq() { continue; }
            let bytes = blob.bytes(); let sender = rstr(&mut rng);
            let r = guarded(&mut sum, id, "handle_dht_message", &blob, || rt.block_on(mgr.handle_dht_message(&bytes, &sender)));
            let Some(r) = r else { broken = true; break };
            let d = classify_dht(r);
            if let DRes::Other(m) = &d { sum.notes.push(format!("case {id}: unclassified handle_dht_message outcome: {m}")); }
            sum.count(kind); sum.count(&format!("dht:verdict:{}", match &d { DRes::Reply(..) => "reply".to_string(), o => format!("{o:?}") }));
            descr.push(json!({"gen": kind, "len": blob.len(), "input": blob.json(), "observed": format!("{d:?}")}));
            frames.push((blob, d));
        }
        if broken { id += 1; continue; }
        wd.push(id, format!("KDht {}", coq_list(frames.iter().map(|(b, d)| format!("({}, {})", b.coq(), coq_dres(d))))));
        sum.case(id, json!({"kind": "handle_dht_message sequence", "frames": descr}));
        sum.distinct_nontrivial += 1; sum.evaluations += 1; sum.add("dht:frames", frames.len() as u64); id += 1;
    }
    if dht_ok == 0 { sum.violation(id, "could not construct a DhtNetworkManager (transport unavailable): handle_dht_message not exercised", &[], json!(null)); }

    // ---------------------------------------------------------------- 5. DhtCoreEngine::handle_request
    for _ in 0..(40 * scale) {
        let avail = *rng.pick(&[0usize, 5, 19, 20, 21, 30, 45]);
        let Some(eng) = rt.block_on(new_core(avail)) else { sum.violation(id, "could not construct a DhtCoreEngine", &[], json!(avail)); break };
        let mut keys = vec![]; let mut frames = vec![]; let mut descr = vec![]; let mut broken = false;
        for _ in 0..rng.range(4, 12) {
            let (blob, kind) = core_frame(&mut rng, &mut keys);
            if !blob.ok_for_coq() { continue; }
            let bytes = blob.bytes();
            let r = guarded(&mut sum, id, "DhtRequestWrapper decode + DhtCoreEngine::handle_request", &blob, || {
                match postcard::from_bytes::<DhtRequestWrapper>(&bytes) { Ok(req) => classify_core(rt.block_on(eng.handle_request(req)).response), Err(_) => CRes::Undecodable }
            });
            let Some(c) = r else { broken = true; break };
            if let CRes::Other(m) = &c { sum.notes.push(format!("case {id}: unclassified handle_request outcome: {m}")); }
            sum.count(kind);
            descr.push(json!({"gen": kind, "input": blob.json(), "observed": format!("{c:?}")}));
            frames.push((blob, c));
        }
        if broken { id += 1; continue; }
        wc.push(id, format!("KCore {} {}", avail, coq_list(frames.iter().map(|(b, c)| format!("({}, {})", b.coq(), coq_cres(c))))));
        sum.case(id, json!({"kind": "handle_request sequence", "routing_table_peers": avail, "frames": descr}));
        sum.distinct_nontrivial += 1; sum.evaluations += 1; sum.add("core:frames", frames.len() as u64); id += 1;
    }

    // ---------------------------------------------------------------- 6. DhtRecord (de)serialise at the 512-byte limit
    for i in 0..(150 * scale) {
        let target = *rng.pick(&[400usize, 510, 511, 512, 513, 514, 600]);
        // a record whose serialisation has exactly `target` bytes (signature length adjusted), or a random one
        let k0 = rng.next();
        let rec = if i % 3 == 0 { rrecord(&mut rng, k0, None) } else {
            let k = *rng.pick(&[0u64, 1, 3]); let seed = rng.next();
            let base = enc(&rrecord(&mut Rng::new(seed), k, Some(0))).len();
            let mut n = target.saturating_sub(base); let mut rec = rrecord(&mut Rng::new(seed), k, Some(n));
            for _ in 0..4 { let l = enc(&rec).len(); if l == target { break; } n = (n + target).saturating_sub(l); rec = rrecord(&mut Rng::new(seed), k, Some(n)); }
            rec
        };
        let valid = enc(&rec);
        let (blob, kind) = match rng.below(6) {
            0 | 1 => (Blob::of(valid.clone()), "rec:valid"),
            2 => { let pad = target.saturating_sub(valid.len()); (Blob::of(valid.clone()).padded(0, pad), "rec:padded") }
            3 => { let (m, _) = mutate(&mut rng, &valid); (Blob::of(m), "rec:mutated") }
            4 => { let n = rng.below(20) as usize; (Blob::of(rng.bytes(n)), "rec:random") }
            _ => (Blob::of(valid.clone()), "rec:serialize"),
        };
        if !blob.ok_for_coq() { continue; }
        let bytes = blob.bytes();
        if kind == "rec:serialize" {
            let Some(o) = guarded(&mut sum, id, "DhtRecord::serialize", &blob, || match rec.serialize() { Ok(b) => RRes::Ok(b), Err(P2PError::RecordTooLarge(n)) => RRes::TooLarge(n), Err(e) => RRes::Other(format!("{e}")) }) else { id += 1; continue };
            w.push(id, format!("KRecS {} {}", blob.coq(), coq_rres(&o)));
            sum.case(id, json!({"kind": "DhtRecord::serialize", "encoded_len": bytes.len(), "input": blob.json(), "observed": format!("{:?}", match &o { RRes::Ok(b) => format!("Ok({} bytes)", b.len()), x => format!("{x:?}") })}));
            sum.count(&format!("rec:serialize:{}", match o { RRes::Ok(_) => "ok", RRes::TooLarge(_) => "too-large", _ => "other" }));
        } else {
            let Some(o) = guarded(&mut sum, id, "DhtRecord::deserialize", &blob, || match DhtRecord::deserialize(&bytes) {
                Ok(r) => RRes::Ok(enc(&r)), Err(P2PError::RecordTooLarge(n)) => RRes::TooLarge(n), Err(P2PError::Serialization(_)) => RRes::DecodeErr, Err(e) => RRes::Other(format!("{e}")) }) else { id += 1; continue };
            w.push(id, format!("KRecD {} {}", blob.coq(), coq_rres(&o)));
            sum.case(id, json!({"kind": "DhtRecord::deserialize", "gen": kind, "len": bytes.len(), "input": blob.json(), "observed": format!("{:?}", match &o { RRes::Ok(b) => format!("Ok({} bytes)", b.len()), x => format!("{x:?}") })}));
            sum.count(kind); sum.count(&format!("rec:deserialize:{}", match o { RRes::Ok(_) => "ok", RRes::TooLarge(_) => "too-large", RRes::DecodeErr => "decode-error", _ => "other" }));
        }
        sum.count(&format!("rec:len:{}", match bytes.len() { 511 => "511", 512 => "512", 513 => "513", _ => "other" }));
        if seen.insert(bytes) { sum.distinct_nontrivial += 1; }
        sum.evaluations += 1; id += 1;
    }

    // ---------------------------------------------------------------- 7. F05a: a hostile NodesFound reply met by a real lookup (TRACE subscriber installed)
    for round in 0..(if args.thorough() { 3 } else { 1 }) {
        let r = rt.block_on(async { tokio::time::timeout(Duration::from_secs(120), f05a_live(args.seed * 1000 + round)).await });
        match r {
            Ok(Ok(d)) => { sum.count("f05a:lookup-survived-hostile-reply"); sum.notes.push(format!("f05a live scenario: {d}")); }
            Ok(Err(d)) if d.starts_with("setup:") => { sum.count("f05a:not-exercised"); sum.notes.push(format!("f05a live scenario not exercised: {d}")); }
            Ok(Err(d)) => {
                sum.case(id, json!({"kind": "live lookup against a hostile peer", "reply": "NodesFound with peer ids aaaaaaa+U20AC / U20AC U20AC U20AC / aaaaaa+U00E9 U00E9 / 1234567+U10348", "outcome": d}));
                sum.violation(id, "iterative lookup does not return normally when a reply names a peer id with a multi-byte character across byte 8 (F05a)", &[], json!({"outcome": d}));
                id += 1;
            }
            Err(_) => { sum.count("f05a:not-exercised"); sum.notes.push("f05a live scenario timed out as a whole".into()); }
        }
        sum.evaluations += 1;
    }

    w.flush(); wd.flush(); wc.flush();
    sum.write(&args.out);
}
