//! C04 correspondence: the real pending tables (DhtNetworkManager::active_operations and
//! TransportHandle::active_requests) driven by adversarial delivery scripts vs Model/Pending.v.
use saorsa_core::dht_network_manager::*;
use serde::{Deserialize, Serialize};
use serde_json::json;
use std::collections::HashMap;
use std::net::SocketAddr;
use std::sync::{Arc, Mutex};
use std::time::{Duration, Instant};
use vh::net::*;
use vh::*;

const HEADER: &str = "From SV Require Import Lib.Base Model.Pending.\nLocal Open Scope N_scope.";
const T_MS: u64 = 1200; // request timeout used in the scripts

/// same field order as the crate-private network::RequestResponseEnvelope
#[derive(Serialize, Deserialize)]
struct Envelope { message_id: String, is_response: bool, payload: Vec<u8> }

struct Ctx {
    net: Arc<SimNet>,
    m: Node,
    peers: Vec<(String, String)>, // (id, addr)
    sentinel: String,
    seen: Arc<Mutex<Vec<(String, String, String)>>>, // (to peer, msg id, protocol) as requests reach the wire
}

async fn setup(wi: u64, rng: &mut Rng) -> anyhow::Result<Ctx> {
    let net = SimNet::new();
    let maddr: SocketAddr = "10.250.0.1:9000".parse()?;
    let m = spawn_node(&net, &format!("c04m{}x{}", wi, rng.below(1 << 30)), maddr, Duration::from_millis(T_MS), 8).await?;
    let seen: Arc<Mutex<Vec<(String, String, String)>>> = Arc::new(Mutex::new(vec![]));
    let mut peers = vec![];
    for i in 0..5 {
        let id = hex::encode(rng.bytes(32));
        let addr = format!("10.{}.{}.1:9000", 20 + i, 1 + i);
        let seen2 = seen.clone();
        let is_sentinel = i == 4;
        let beh: Behaviour = Arc::new(move |me, msg| {
            if is_sentinel {
                return match msg.payload {
                    DhtNetworkOperation::Ping => Reply::Silent, // the response M sends to the sentinel's own ping is what we watch
                    DhtNetworkOperation::Leave => Reply::Result(DhtNetworkResult::LeaveSuccess),
                    _ => Reply::Silent,
                };
            }
            match msg.payload {
                DhtNetworkOperation::Leave => Reply::Result(DhtNetworkResult::LeaveSuccess),
                _ => { seen2.lock().unwrap().push((me.to_string(), msg.message_id.clone(), DHT_PROTO.into())); Reply::Silent }
            }
        });
        net.add_scripted(&id, &addr, beh);
        m.transport.connect_peer(&addr).await.map_err(|e| anyhow::anyhow!("{e}"))?;
        peers.push((id, addr));
    }
    let sentinel = peers.pop().unwrap().0;
    Ok(Ctx { net, m, peers, sentinel, seen })
}

/// wait until every frame injected so far has been dispatched: inject a Ping request from the sentinel
/// and wait for M's response to it to reach the router.
async fn quiesce(c: &Ctx) {
    let mid = format!("sentinel-{}", c.net.counter.fetch_add(1, std::sync::atomic::Ordering::SeqCst));
    let req = DhtNetworkMessage { message_id: mid.clone(), source: c.sentinel.clone(), target: None, message_type: DhtMessageType::Request,
        payload: DhtNetworkOperation::Ping, result: None, timestamp: now_secs(), ttl: 3, hop_count: 0 };
    c.m.transport.verif_inject_frame(&c.sentinel, SimNet::frame(&c.sentinel, &req)).await;
    let t0 = Instant::now();
    loop {
        let hit = c.net.trace_snapshot().iter().any(|e| e.msg_id == mid && e.to == c.sentinel);
        if hit || t0.elapsed() > Duration::from_secs(5) { break; }
        tokio::time::sleep(Duration::from_millis(1)).await;
    }
    tokio::time::sleep(Duration::from_millis(8)).await;
}

fn pong(tag: u64) -> DhtNetworkResult {
    DhtNetworkResult::PongReceived { responder: format!("tag{tag}"), latency: Duration::from_millis(0) }
}

#[derive(Clone, Debug)]
enum Ev { Send(u64, u64, u64, u64), Deliver(u64, u64, u64), Finish(u64), Cancel(u64) }
fn coq_ev(e: &Ev) -> String {
    match e {
        Ev::Send(i, p, now, t) => format!("Send {i} {p} {now} {t}"),
        Ev::Deliver(i, f, pl) => format!("Deliver {i} {f} {pl}"),
        Ev::Finish(i) => format!("Finish {i}"),
        Ev::Cancel(i) => format!("Cancel {i}"),
    }
}

struct Pending { idx: u64, uuid: String, deadline: Instant, task: tokio::task::JoinHandle<Result<DhtNetworkResult, String>>, alive: bool }

/// table size, or UNOBSERVED when a live request is finished / about to hit its own timeout (the size is then in flux)
fn dsize(c: &Ctx, reqs: &[Pending]) -> u64 {
    let soon = Instant::now() + Duration::from_millis(80);
    if reqs.iter().any(|r| r.alive && (r.task.is_finished() || r.deadline < soon)) { return 999999; }
    let n = c.m.manager.verif_active_operations_len() as u64;
    if reqs.iter().any(|r| r.alive && r.task.is_finished()) { 999999 } else { n }
}

/// the DHT-table script
async fn dht_script(wi: u64, mut rng: Rng) -> anyhow::Result<(Vec<Ev>, Vec<Option<(u64, u64)>>, Vec<u64>, serde_json::Value)> {
    let c = setup(wi, &mut rng).await?;
    let t0 = Instant::now();
    let mut evs: Vec<Ev> = vec![]; let mut obs: Vec<Option<(u64, u64)>> = vec![]; let mut sizes: Vec<u64> = vec![];
    let mut reqs: Vec<Pending> = vec![];
    let mut known_ids: Vec<(u64, String, usize)> = vec![]; // (model id, uuid, peer index)
    let mut next_id = 1u64; let mut tag = 100u64;
    let mut last_send = Instant::now();
    let mut started_at: std::collections::HashMap<u64, Instant> = std::collections::HashMap::new();   // request idx -> when it was sent
    let mut leftover: Vec<Instant> = vec![];   // start times of dropped requests whose entries wait for the sweep
    let nsteps = rng.range(6, 16);
    for _ in 0..nsteps {
        // requests that timed out on their own since the last step
        for r in reqs.iter_mut().filter(|r| r.alive) {
            if r.task.is_finished() {
                let _ = (&mut r.task).await; r.alive = false;
                evs.push(Ev::Finish(r.idx)); obs.push(None); sizes.push(999999);
            }
        }
        let choice = rng.below(12);
        let live: Vec<usize> = reqs.iter().enumerate().filter(|(_, r)| r.alive).map(|(i, _)| i).collect();
        if choice <= 2 || known_ids.is_empty() {
            if live.len() >= 4 { continue; }
            // Send.  The sweep removes entries older than 2 x timeout: never send while a left-over entry is near that
            // age (the harness clock and the node's clock differ by scheduling latencies).
            loop {
                let near = leftover.iter().map(|t| t.elapsed().as_millis() as u64).filter(|a| *a + 300 > 2 * T_MS && *a < 2 * T_MS + 300).max();
                match near { Some(a) => tokio::time::sleep(Duration::from_millis(2 * T_MS + 320 - a)).await, None => break }
            }
            leftover.retain(|t| (t.elapsed().as_millis() as u64) < 2 * T_MS);
            let pi = rng.below(c.peers.len() as u64) as usize;
            let before = c.seen.lock().unwrap().len();
            let mgr = c.m.manager.clone(); let pid = c.peers[pi].0.clone();
            let now = t0.elapsed().as_millis() as u64;
            last_send = Instant::now();
            let task = tokio::spawn(async move { mgr.send_request(&pid, DhtNetworkOperation::Ping).await.map_err(|e| e.to_string()) });
            let ok = wait_until(|| { let s = c.seen.clone(); async move { s.lock().unwrap().len() > before } }, Duration::from_secs(5)).await;
            if !ok { anyhow::bail!("request never reached the wire"); }
            let uuid = c.seen.lock().unwrap()[before].1.clone();
            let idx = next_id; next_id += 1;
            reqs.push(Pending { idx, uuid: uuid.clone(), deadline: Instant::now() + Duration::from_millis(T_MS), task, alive: true });
            known_ids.push((idx, uuid, pi));
            started_at.insert(idx, last_send);
            evs.push(Ev::Send(idx, pi as u64 + 1, now, T_MS)); obs.push(None);
            // (on a badly overloaded machine the request may already have timed out before we look)
            sizes.push(dsize(&c, &reqs));
            if std::env::var("C04_DEBUG").is_ok() && reqs.last().map(|r| r.task.is_finished()).unwrap_or(false) {
                let r = reqs.last_mut().unwrap(); let res = (&mut r.task).await; eprintln!("early finish: {:?}", res); r.alive = false;
            }
            if std::env::var("C04_DEBUG").is_ok() {
                eprintln!("send idx={idx} before={before} seen={:?} len={} finished={}", c.seen.lock().unwrap().iter().map(|x| x.1.clone()).collect::<Vec<_>>(), c.m.manager.verif_active_operations_len(), reqs.last().map(|r| r.task.is_finished()).unwrap_or(false));
            }
        } else if choice <= 8 {
            // Deliver: id = a known id (pending or already finished) or a guessed one; sender = right peer, another peer, or a stranger
            let (mid, uuid, right_peer) = if rng.chance(1, 6) {
                let g = next_id; next_id += 1; (g, uuid_like(&mut rng), rng.below(c.peers.len() as u64) as usize)
            } else { known_ids[rng.below(known_ids.len() as u64) as usize].clone() };
            let (from_idx, from_id) = match rng.below(5) {
                0 | 1 | 2 => (right_peer as u64 + 1, c.peers[right_peer].0.clone()),
                3 => { let o = (right_peer + 1 + rng.below(c.peers.len() as u64 - 1) as usize) % c.peers.len(); (o as u64 + 1, c.peers[o].0.clone()) }
                _ => (50, hex::encode(rng.bytes(32))),
            };
            // never race a delivery against the request's own timeout
            if reqs.iter().any(|r| r.alive && r.uuid == uuid && r.deadline < Instant::now() + Duration::from_millis(350)) { continue; }
            tag += 1;
            // the body's `source` is attacker-controlled: half of the time it claims to be the contacted peer
            let claimed = if rng.chance(1, 2) { c.peers[right_peer].0.clone() } else { "whoever".to_string() };
            let resp = DhtNetworkMessage { message_id: uuid.clone(), source: claimed, target: None, message_type: DhtMessageType::Response,
                payload: DhtNetworkOperation::Ping, result: Some(pong(tag)), timestamp: now_secs(), ttl: 3, hop_count: 1 };
            c.m.transport.verif_inject_frame(&from_id, SimNet::frame(&from_id, &resp)).await;
            quiesce(&c).await;
            // if this delivery is one the waiting request should take (right id, right peer, first reply), give the
            // request's task time to be scheduled; the verdict itself is still decided by the model inside Coq
            let expect_done = reqs.iter().position(|r| r.alive && r.uuid == uuid && known_ids.iter().any(|k| k.1 == uuid && c.peers[k.2].0 == from_id));
            if let Some(i) = expect_done {
                let t_wait = Instant::now();
                while !reqs[i].task.is_finished() && t_wait.elapsed() < Duration::from_millis(1500) { tokio::time::sleep(Duration::from_millis(2)).await; }
            } else { tokio::time::sleep(Duration::from_millis(12)).await; }
            evs.push(Ev::Deliver(mid, from_idx, tag));
            // which task finished?  A task that finished WITH a reply is the completion of this delivery;
            // a task that ran into its own timeout during the window is an ordinary Finish.
            let mut completed: Option<(u64, u64)> = None;
            let mut timed_out: Vec<u64> = vec![];
            for r in reqs.iter_mut().filter(|r| r.alive) {
                if r.task.is_finished() {
                    let res = (&mut r.task).await;
                    r.alive = false;
                    match res {
                        Ok(Ok(DhtNetworkResult::PongReceived { responder, .. })) => {
                            let t: u64 = responder.trim_start_matches("tag").parse().unwrap_or(0);
                            completed = Some((r.idx, t));
                        }
                        _ => timed_out.push(r.idx),
                    }
                }
            }
            obs.push(completed);
            match completed {
                Some((i, _)) => { sizes.push(999999); evs.push(Ev::Finish(i)); obs.push(None); sizes.push(999999); }
                None => sizes.push(if timed_out.is_empty() { c.m.manager.verif_active_operations_len() as u64 } else { 999999 }),
            }
            for i in timed_out { evs.push(Ev::Finish(i)); obs.push(None); sizes.push(999999); }
            if let Some(l) = sizes.last_mut() { *l = dsize(&c, &reqs); }
        } else if choice == 9 && !live.is_empty() {
            // let one request time out
            let i = live[0];
            let res = tokio::time::timeout(Duration::from_secs(5), &mut reqs[i].task).await;
            reqs[i].alive = false;
            if let Ok(Ok(Ok(r))) = res { anyhow::bail!("request completed without a delivery: {r:?}"); }
            evs.push(Ev::Finish(reqs[i].idx)); obs.push(None);
            sizes.push(dsize(&c, &reqs));
        } else if choice == 10 && !live.is_empty() {
            let i = live[rng.below(live.len() as u64) as usize];
            // never race a cancellation against the request's own timeout (the request would remove its entry itself)
            if reqs[i].deadline < Instant::now() + Duration::from_millis(350) { continue; }
            reqs[i].task.abort(); reqs[i].alive = false;
            match (&mut reqs[i].task).await {
                Err(e) if e.is_cancelled() => {
                    if let Some(t) = started_at.get(&reqs[i].idx) { leftover.push(*t); }
                    evs.push(Ev::Cancel(reqs[i].idx)); obs.push(None);
                    sizes.push(dsize(&c, &reqs));
                }
                // the task had already returned when the abort arrived: an ordinary Finish
                _ => { evs.push(Ev::Finish(reqs[i].idx)); obs.push(None); sizes.push(999999); }
            }
        } else if choice == 11 {
            // age everything beyond the sweep horizon (only when no live request could time out ambiguously)
            if live.is_empty() {
                let need = Duration::from_millis(2 * T_MS + 120);
                let el = last_send.elapsed();
                if el < need { tokio::time::sleep(need - el).await; }
            }
        }
        // keep sends away from the sweep boundary of older cancelled entries: [1.6T, 2.4T] after the last send is avoided
        let el = last_send.elapsed().as_millis() as u64;
        if el > T_MS * 16 / 10 && el < T_MS * 24 / 10 { tokio::time::sleep(Duration::from_millis(T_MS * 24 / 10 - el + 20)).await; }
    }
    // drain
    for r in reqs.iter_mut().filter(|r| r.alive) {
        let _ = tokio::time::timeout(Duration::from_secs(5), &mut r.task).await;
        evs.push(Ev::Finish(r.idx)); obs.push(None); sizes.push(999999);
    }
    if let Some(l) = sizes.last_mut() { *l = dsize(&c, &reqs); }
    let desc = json!({"kind": "dht-table", "events": evs.iter().map(coq_ev).collect::<Vec<_>>(), "observed": format!("{:?}", obs), "sizes": sizes});
    let _ = tokio::time::timeout(Duration::from_secs(20), c.m.manager.stop()).await;
    let _ = tokio::time::timeout(Duration::from_secs(5), c.m.transport.stop()).await;
    Ok((evs, obs, sizes, desc))
}

fn uuid_like(rng: &mut Rng) -> String {
    let b = rng.bytes(16);
    format!("{}-{}-{}-{}-{}", hex::encode(&b[0..4]), hex::encode(&b[4..6]), hex::encode(&b[6..8]), hex::encode(&b[8..10]), hex::encode(&b[10..16]))
}

#[derive(Clone, Debug)]
enum REv { Send(u64, u64), Deliver(u64, u64, u64), Finish(u64), Cancel(u64) }
#[derive(Clone, Debug, PartialEq)]
enum ROut { None, Refused(u64), Complete(u64, u64) }
fn coq_rev(e: &REv) -> String {
    match e { REv::Send(i, p) => format!("RSend {i} {p}"), REv::Deliver(i, f, pl) => format!("RDeliver {i} {f} {pl}"),
              REv::Finish(i) => format!("RFinish {i}"), REv::Cancel(i) => format!("RCancel {i}") }
}
fn coq_rout(o: &ROut) -> String {
    match o { ROut::None => "RNone".into(), ROut::Refused(i) => format!("RRefused {i}"), ROut::Complete(i, p) => format!("RComplete {i} {p}") }
}

struct RPending { idx: u64, uuid: String, deadline: Instant, task: tokio::task::JoinHandle<Result<Vec<u8>, String>>, alive: bool }

async fn rsize(c: &Ctx, reqs: &[RPending]) -> u64 {
    let soon = Instant::now() + Duration::from_millis(80);
    if reqs.iter().any(|r| r.alive && (r.task.is_finished() || r.deadline < soon)) { return 999999; }
    let n = c.m.transport.verif_active_requests_len().await as u64;
    if reqs.iter().any(|r| r.alive && r.task.is_finished()) { 999999 } else { n }
}

/// the /rr/ table script.  `flood`: fill the table to its cap first.
async fn rr_script(wi: u64, mut rng: Rng, flood: bool, cancel_flood: bool) -> anyhow::Result<(Vec<REv>, Vec<ROut>, Vec<u64>, serde_json::Value)> {
    let c = setup(wi, &mut rng).await?;
    let mut evs = vec![]; let mut obs = vec![]; let mut sizes = vec![];
    let mut reqs: Vec<RPending> = vec![];
    let mut known: Vec<(u64, String, usize)> = vec![];
    let mut next_id = 1u64; let mut tag = 1u64;
    let mut sum_stalled_cancels = 0u64;
    let rr_seen = |net: &Arc<SimNet>| -> Vec<(String, String)> {
        // (to, message id) of /rr/ request envelopes that reached the wire
        net.trace_snapshot().iter().filter(|e| e.op.starts_with("/rr/")).map(|e| (e.to.clone(), e.msg_id.clone())).collect()
    };
    let _ = rr_seen;
    let timeout = Duration::from_millis(if flood { 20000 } else { T_MS });
    let send = |pi: usize, c: &Ctx| {
        let tr = c.m.transport.clone(); let pid = c.peers[pi].0.clone();
        tokio::spawn(async move { tr.send_request(&pid, "vp", vec![1, 2, 3], timeout).await.map(|r| r.data).map_err(|e| e.to_string()) })
    };
    let nsteps = if flood { 262 } else { rng.range(6, 16) };
    for step in 0..nsteps {
        for r in reqs.iter_mut().filter(|r| r.alive) {
            if r.task.is_finished() {
                let _ = (&mut r.task).await; r.alive = false;
                evs.push(REv::Finish(r.idx)); obs.push(ROut::None); sizes.push(999999);
            }
        }
        let live: Vec<usize> = reqs.iter().enumerate().filter(|(_, r)| r.alive).map(|(i, _)| i).collect();
        let choice = if flood { if step < 258 { 0 } else { 3 + (step % 2) } } else { rng.below(12) };
        if choice <= 2 || known.is_empty() {
            if !flood && live.len() >= 4 { continue; }
            let pi = rng.below(c.peers.len() as u64) as usize;
            let before = c.m.transport.verif_active_requests_len().await;
            let wire_before = c.net.rr_ids.lock().unwrap().len();
            let task = send(pi, &c);
            let idx = next_id; next_id += 1;
            // either the envelope reaches the wire, or the call is refused at once
            let t0 = Instant::now();
            let mut refused = false;
            loop {
                if c.net.rr_ids.lock().unwrap().len() > wire_before { break; }
                if task.is_finished() { refused = true; break; }
                if t0.elapsed() > Duration::from_secs(5) { anyhow::bail!("rr request neither sent nor refused"); }
                tokio::time::sleep(Duration::from_millis(1)).await;
            }
            let _ = before;
            if refused {
                let r = task.await;
                let msg = match r { Ok(Err(e)) => e, other => format!("{other:?}") };
                evs.push(REv::Send(idx, pi as u64 + 1));
                obs.push(if msg.contains("Too many active requests") { ROut::Refused(idx) } else { ROut::None });
                sizes.push(rsize(&c, &reqs).await);
            } else {
                let uuid = c.net.rr_ids.lock().unwrap()[wire_before].clone();
                reqs.push(RPending { idx, uuid: uuid.clone(), deadline: Instant::now() + timeout, task, alive: true });
                known.push((idx, uuid, pi));
                evs.push(REv::Send(idx, pi as u64 + 1)); obs.push(ROut::None);
                sizes.push(rsize(&c, &reqs).await);
            }
        } else if choice <= 8 {
            let (mid, uuid, right_peer) = if rng.chance(1, 6) {
                let g = next_id; next_id += 1; (g, uuid_like(&mut rng), rng.below(c.peers.len() as u64) as usize)
            } else { known[rng.below(known.len() as u64) as usize].clone() };
            let (from_idx, from_id) = match rng.below(5) {
                0 | 1 | 2 => (right_peer as u64 + 1, c.peers[right_peer].0.clone()),
                3 => { let o = (right_peer + 1 + rng.below(c.peers.len() as u64 - 1) as usize) % c.peers.len(); (o as u64 + 1, c.peers[o].0.clone()) }
                _ => (50, hex::encode(rng.bytes(32))),
            };
            if reqs.iter().any(|r| r.alive && r.uuid == uuid && r.deadline < Instant::now() + Duration::from_millis(350)) { continue; }
            tag += 1;
            let uuid_for_wait = uuid.clone();
            let env = Envelope { message_id: uuid, is_response: true, payload: vec![(tag % 250) as u8, (tag / 250) as u8] };
            let wire = Wire { protocol: "/rr/vp".into(), data: postcard::to_stdvec(&env)?, from: "whoever".into(), timestamp: now_secs() };
            c.m.transport.verif_inject_frame(&from_id, postcard::to_stdvec(&wire)?).await;
            quiesce(&c).await;
            let expect_done = reqs.iter().position(|r| r.alive && r.uuid == uuid_for_wait && known.iter().any(|k| k.1 == uuid_for_wait && c.peers[k.2].0 == from_id));
            if let Some(i) = expect_done {
                let t_wait = Instant::now();
                while !reqs[i].task.is_finished() && t_wait.elapsed() < Duration::from_millis(1500) { tokio::time::sleep(Duration::from_millis(2)).await; }
            } else { tokio::time::sleep(Duration::from_millis(12)).await; }
            evs.push(REv::Deliver(mid, from_idx, tag));
            let mut completed = ROut::None;
            let mut timed_out: Vec<u64> = vec![];
            for r in reqs.iter_mut().filter(|r| r.alive) {
                if r.task.is_finished() {
                    let res = (&mut r.task).await; r.alive = false;
                    match res {
                        Ok(Ok(d)) if d.len() == 2 => completed = ROut::Complete(r.idx, d[0] as u64 + 250 * d[1] as u64),
                        Ok(Ok(_)) => completed = ROut::Complete(r.idx, 0),
                        _ => timed_out.push(r.idx),
                    }
                }
            }
            obs.push(completed.clone());
            match completed {
                ROut::Complete(i, _) => { sizes.push(999999); evs.push(REv::Finish(i)); obs.push(ROut::None); sizes.push(999999); }
                _ => sizes.push(if timed_out.is_empty() { rsize(&c, &reqs).await } else { 999999 }),
            }
            for i in timed_out { evs.push(REv::Finish(i)); obs.push(ROut::None); sizes.push(999999); }
            if let Some(l) = sizes.last_mut() { *l = rsize(&c, &reqs).await; }
        } else if choice == 9 && !live.is_empty() && !flood {
            let i = live[0];
            let res = tokio::time::timeout(Duration::from_secs(6), &mut reqs[i].task).await;
            reqs[i].alive = false;
            if let Ok(Ok(Ok(_))) = res { anyhow::bail!("rr request completed without a delivery"); }
            evs.push(REv::Finish(reqs[i].idx)); obs.push(ROut::None);
            sizes.push(rsize(&c, &reqs).await);
        } else if choice == 11 && !flood {
            // a request whose send is still in flight (the router stalls) is dropped: nothing of it may remain
            let pi = rng.below(c.peers.len() as u64) as usize;
            c.net.stall.lock().unwrap().insert(c.peers[pi].0.clone(), 250);
            let wire_before = c.net.rr_ids.lock().unwrap().len();
            let task = send(pi, &c);
            let idx = next_id; next_id += 1;
            let ok = wait_until(|| { let n = c.net.clone(); async move { n.rr_ids.lock().unwrap().len() > wire_before } }, Duration::from_secs(5)).await;
            tokio::time::sleep(Duration::from_millis(20)).await;
            let in_flight = ok && !task.is_finished();
            task.abort(); let _ = task.await;
            c.net.stall.lock().unwrap().clear();
            tokio::time::sleep(Duration::from_millis(320)).await;
            if in_flight {
                evs.push(REv::Send(idx, pi as u64 + 1)); obs.push(ROut::None); sizes.push(999999);
                evs.push(REv::Cancel(idx)); obs.push(ROut::None);
                sizes.push(rsize(&c, &reqs).await);
                sum_stalled_cancels += 1;
            }
        } else if choice >= 10 && !live.is_empty() {
            let i = live[rng.below(live.len() as u64) as usize];
            reqs[i].task.abort(); reqs[i].alive = false;
            let _ = (&mut reqs[i].task).await;
            tokio::time::sleep(Duration::from_millis(5)).await;
            evs.push(REv::Cancel(reqs[i].idx)); obs.push(ROut::None);
            sizes.push(rsize(&c, &reqs).await);
        }
        if flood && cancel_flood && step == 255 {
            // drop every pending future, then keep sending: the table must have room again
            for r in reqs.iter_mut().filter(|r| r.alive) {
                r.task.abort(); r.alive = false; let _ = (&mut r.task).await;
                evs.push(REv::Cancel(r.idx)); obs.push(ROut::None); sizes.push(999999);
            }
            tokio::time::sleep(Duration::from_millis(20)).await;
            if let Some(l) = sizes.last_mut() { *l = rsize(&c, &reqs).await; }
        }
    }
    for r in reqs.iter_mut().filter(|r| r.alive) {
        if flood { r.task.abort(); let _ = (&mut r.task).await; evs.push(REv::Cancel(r.idx)); }
        else { let _ = tokio::time::timeout(Duration::from_secs(6), &mut r.task).await; evs.push(REv::Finish(r.idx)); }
        obs.push(ROut::None); sizes.push(999999);
    }
    tokio::time::sleep(Duration::from_millis(20)).await;
    if let Some(l) = sizes.last_mut() { *l = rsize(&c, &reqs).await; }
    let n = evs.len();
    let desc = json!({"kind": if flood { "rr-table-flood" } else { "rr-table" }, "n_events": n, "cancelled_while_send_in_flight": sum_stalled_cancels,
        "events": evs.iter().take(40).map(coq_rev).collect::<Vec<_>>(), "observed": obs.iter().take(40).map(coq_rout).collect::<Vec<_>>(),
        "sizes_tail": sizes.iter().rev().take(8).collect::<Vec<_>>()});
    let _ = tokio::time::timeout(Duration::from_secs(20), c.m.manager.stop()).await;
    let _ = tokio::time::timeout(Duration::from_secs(5), c.m.transport.stop()).await;
    Ok((evs, obs, sizes, desc))
}

fn main() {
    let args = Args::parse();
    install_trace_sink();
    let rt = tokio::runtime::Builder::new_multi_thread().worker_threads(8).enable_all().build().unwrap();
    let mut rng = Rng::new(args.seed);
    let mut sum = Summary::default();
    sum.rule = "adversarial delivery scripts against one real node: requests to silent peers, then response frames injected into the real receive loop with an arbitrary authenticated sender (right peer / other peer / stranger), carrying the id of a pending, finished or guessed request, duplicated and late; time-outs; dropped futures; ageing past the sweep horizon; /rr/ table filled to its cap of 256 and beyond, with and without dropping the futures. Non-trivial = at least one accepted and one discarded delivery; distinct = different event lists".into();
    let mut wd = CaseWriter::new(&args.out, "cases_c04d", HEADER, "dcase", "check_dcase", "prop_dcase", 20);
    let mut wr = CaseWriter::new(&args.out, "cases_c04r", HEADER, "rcase", "check_rcase", "prop_rcase", 20);
    let (nd, nr) = if args.thorough() { (600, 600) } else { (48, 48) };
    let conc = 12;
    let mut seen = std::collections::HashSet::new();
    let mut id = 0u64;
    let mut i = 0;
    while i < nd {
        let futs: Vec<_> = (0..conc.min(nd - i)).map(|k| dht_script((i + k) as u64, rng.fork())).collect();
        for o in rt.block_on(futures::future::join_all(futs)) {
            match o {
                Ok((evs, obs, sizes, desc)) => {
                    let term = format!("({}, {}, {})", coq_list(evs.iter().map(coq_ev)),
                        coq_list(obs.iter().map(|o| match o { Some((i, p)) => format!("Some ({i}, {p})"), None => "None".into() })),
                        coq_list(sizes.iter().map(|s| s.to_string())));
                    let acc = obs.iter().filter(|o| o.is_some()).count();
                    let disc = evs.iter().zip(obs.iter()).filter(|(e, o)| matches!(e, Ev::Deliver(..)) && o.is_none()).count();
                    if acc > 0 && disc > 0 && seen.insert(term.clone()) { sum.distinct_nontrivial += 1; }
                    sum.add("dht:deliveries_accepted", acc as u64); sum.add("dht:deliveries_discarded", disc as u64);
                    sum.add("dht:cancels", evs.iter().filter(|e| matches!(e, Ev::Cancel(_))).count() as u64);
                    wd.push(id, term); sum.case(id, desc); sum.evaluations += 1; id += 1;
                }
                Err(e) => { sum.notes.push(format!("dht script failed: {e}")); sum.count("script_failed"); }
            }
        }
        i += conc;
    }
    wd.flush();
    id = 100000;
    let mut i = 0;
    while i < nr {
        let futs: Vec<_> = (0..conc.min(nr - i)).map(|k| { let j = i + k; rr_script(j as u64, rng.fork(), j % 16 == 0, j % 32 == 0) }).collect();
        for o in rt.block_on(futures::future::join_all(futs)) {
            match o {
                Ok((evs, obs, sizes, desc)) => {
                    let term = format!("({}, {}, {})", coq_list(evs.iter().map(coq_rev)), coq_list(obs.iter().map(coq_rout)), coq_list(sizes.iter().map(|s| s.to_string())));
                    let acc = obs.iter().filter(|o| matches!(o, ROut::Complete(..))).count();
                    let disc = evs.iter().zip(obs.iter()).filter(|(e, o)| matches!(e, REv::Deliver(..)) && **o == ROut::None).count();
                    if acc > 0 && disc > 0 && seen.insert(term.clone()) { sum.distinct_nontrivial += 1; }
                    sum.add("rr:deliveries_accepted", acc as u64); sum.add("rr:deliveries_discarded", disc as u64);
                    sum.add("rr:refused_at_cap", obs.iter().filter(|o| matches!(o, ROut::Refused(_))).count() as u64);
                    sum.add("rr:cancels", evs.iter().filter(|e| matches!(e, REv::Cancel(_))).count() as u64);
                    wr.push(id, term); sum.case(id, desc); sum.evaluations += 1; id += 1;
                }
                Err(e) => { sum.notes.push(format!("rr script failed: {e}")); sum.count("script_failed"); }
            }
        }
        i += conc;
    }
    wr.flush();
    let _ = HashMap::<u8, u8>::new();
    sum.write(&args.out);
    std::process::exit(0);
}
