//! C03 correspondence (mode B): 2..10 real DhtNetworkManagers over the in-memory router,
//! interleaved put/get from arbitrary nodes, silent subsets, vs Model/Store.v.
use saorsa_core::dht_network_manager::*;
use serde_json::json;
use std::collections::HashMap;
use std::net::SocketAddr;
use std::time::Duration;
use vh::net::*;
use vh::*;

const HEADER: &str = "From SV Require Import Lib.Base Model.Lookup Model.Store.\nLocal Open Scope N_scope.";
const REPL: usize = 4;

struct Ids { map: HashMap<String, u64>, names: Vec<String> }
impl Ids {
    fn get(&mut self, s: &str) -> u64 {
        if let Some(&i) = self.map.get(s) { return i; }
        let i = self.names.len() as u64 + 1; self.map.insert(s.to_string(), i); self.names.push(s.to_string()); i
    }
}

struct Vals { map: HashMap<Vec<u8>, u64> }
impl Vals {
    fn id(&mut self, v: &[u8]) -> u64 { let n = self.map.len() as u64 + 1; *self.map.entry(v.to_vec()).or_insert(n) }
    fn coq(&mut self, v: &[u8]) -> String { format!("({}, {})", self.id(v), v.len()) }
}

async fn grid(nodes: &[Node], keys: &[[u8; 32]], ids: &mut Ids, vals: &mut Vals, names: &[String], origin: usize) -> (String, Vec<Vec<Option<Vec<u8>>>>) {
    let mut items = vec![]; let mut raw = vec![];
    for (ni, n) in nodes.iter().enumerate() {
        let mut row = vec![];
        for k in keys {
            let v = n.manager.get_local(k).await.ok().flatten();
            let ov = match &v { Some(b) => format!("Some {}", vals.coq(b)), None => "None".into() };
            // the origin's own store is addressed by its app-level id (the model's `self`), every other node by its transport id
            let who = if ni == origin { ids.get(&names[ni]) } else { ids.get(&n.tid) };
            items.push(format!("({}, {}, {})", who, n_of_be(k), ov));
            row.push(v);
        }
        raw.push(row);
    }
    (coq_list(items.into_iter()), raw)
}

async fn run_world(wi: u64, mut rng: Rng) -> anyhow::Result<Summary> {
    let mut sum = Summary::default();
    let net = SimNet::new();
    let n = rng.range(2, 10) as usize;
    let timeout = Duration::from_millis(200);
    let mut nodes = vec![]; let mut names = vec![];
    for i in 0..n {
        let name = format!("w{}n{}x{}", wi, i, rng.below(1 << 20));
        let addr: SocketAddr = format!("10.{}.{}.1:9000", i + 1, i + 1).parse()?;
        nodes.push(spawn_node(&net, &name, addr, timeout, REPL).await?);
        names.push(name);
    }
    // connectivity
    let topo = rng.below(4);
    let mut edges: Vec<(usize, usize)> = vec![];
    for i in 0..n { for j in (i + 1)..n {
        let on = match topo { 0 => true, 1 => j == i + 1 || (i == 0 && j == n - 1), 2 => rng.chance(1, 2) || j == i + 1, _ => i == 0 };
        if on { edges.push((i, j)); }
    } }
    let mut degree = vec![0usize; n];
    for &(i, j) in &edges {
        let _ = nodes[i].transport.connect_peer(&nodes[j].addr.to_string()).await;
        degree[i] += 1; degree[j] += 1;
    }
    for i in 0..n {
        let mg = nodes[i].manager.clone(); let want = degree[i];
        wait_until(|| { let mg = mg.clone(); async move { mg.get_connected_peers().await.len() >= want } }, Duration::from_secs(3)).await;
    }
    let mut ids = Ids { map: HashMap::new(), names: vec![] };
    let mut vals = Vals { map: HashMap::new() };
    for i in 0..n { ids.get(&names[i]); ids.get(&nodes[i].tid); ids.get(&hex::encode(dht_key_of(&names[i]))); }
    let mut keys: Vec<[u8; 32]> = vec![];
    for _ in 0..3 { let b = rng.bytes(32); let mut k = [0u8; 32]; k.copy_from_slice(&b); keys.push(k); }
    keys.push(dht_key_of(&nodes[rng.below(n as u64) as usize].tid));
    // the local store path must refuse oversized values too (and keep what it accepts), whatever the node knows
    {
        let probe_key = [0xA5u8; 32];
        for (len, must_accept) in [(512usize, true), (513, false), (600, false), (0, true)] {
            let who = rng.below(n as u64) as usize;
            let val = vec![(len % 251) as u8; len];
            let r = nodes[who].manager.store_local(probe_key, val.clone()).await;
            let held = nodes[who].manager.get_local(&probe_key).await.ok().flatten();
            sum.count("store_local_probes");
            if r.is_ok() != must_accept || (must_accept && held.as_deref() != Some(&val[..])) || (!must_accept && held.as_ref().map(|h| h.len() > 512).unwrap_or(false)) {
                sum.violation(900000 + wi, "store_local accepts / refuses a value against the 512-byte limit, or does not keep what it accepted", &[],
                    json!({"len": len, "returned_ok": r.is_ok(), "held_len": held.map(|h| h.len())}));
            }
        }
    }
    let mut silent = vec![false; n];
    let sizes = [0usize, 1, 37, 511, 512, 513, 600];
    let nops = rng.range(6, 14);
    let mut cid = 0u64;
    for _ in 0..nops {
        // toggle silence now and then (never the origin)
        if rng.chance(1, 4) {
            let j = rng.below(n as u64) as usize;
            silent[j] = !silent[j];
            net.set_silent(&nodes[j].tid, silent[j]);
            sum.count("silence_toggles");
        }
        let live: Vec<usize> = (0..n).filter(|&i| !silent[i]).collect();
        if live.is_empty() { continue; }
        let o = live[rng.below(live.len() as u64) as usize];
        let key = *rng.pick(&keys);
        let origin = &nodes[o];
        let selfs = vec![names[o].clone(), origin.tid.clone(), hex::encode(dht_key_of(&names[o]))];
        let is_put = rng.chance(3, 5);
        let (pre, _) = grid(&nodes, &keys, &mut ids, &mut vals, &names, o).await;
        net.take_trace();
        let silent_list = coq_list((0..n).filter(|&i| silent[i]).map(|i| ids.get(&nodes[i].tid).to_string()));
        if is_put {
            let size = *rng.pick(&sizes);
            let value = if rng.chance(1, 5) && !vals.map.is_empty() { vals.map.keys().next().unwrap().clone() } else { rng.bytes(size) };
            let init = origin.manager.find_closest_nodes_local(&key, REPL).await;
            let res = tokio::time::timeout(Duration::from_secs(30), origin.manager.put(key, value.clone())).await;
            let trace = net.take_trace();
            let (post, _) = grid(&nodes, &keys, &mut ids, &mut vals, &names, o).await;
            let reqs: Vec<&TraceEv> = trace.iter().filter(|e| e.is_request && e.from == origin.tid).collect();
            // a request = a frame handed to the wire, or an attempt that died at the dial (silent node not yet connected)
            let addr_owner: HashMap<String, String> = nodes.iter().map(|x| (x.addr.to_string(), x.tid.clone())).collect();
            let fn_reqs: Vec<String> = trace.iter().filter(|e| e.from == origin.tid).filter_map(|e| {
                if e.is_request && e.op.starts_with("FindNode") { Some(e.to.clone()) }
                else if e.op == "Dial:refused" { addr_owner.get(&e.to).cloned() } else { None } }).collect();
            let put_reqs: Vec<String> = reqs.iter().filter(|e| e.op.starts_with("Put")).map(|e| e.to.clone()).collect();
            let mut replies = vec![];
            for e in reqs.iter().filter(|e| e.op.starts_with("FindNode")) {
                let resp = trace.iter().find(|r| !r.is_request && r.msg_id == e.msg_id && r.from == e.to && r.delivered && r.result.is_some());
                let r = match resp {
                    Some(r) if r.result.as_deref() == Some("NodesFound") => format!("Some {}", coq_list(r.nodes.iter().map(|x| ids.get(x).to_string()))),
                    Some(_) => "Some []".into(),
                    None => "None".into(),
                };
                replies.push(format!("({}, {})", ids.get(&e.to), r));
            }
            let (refused, replicated, outcomes) = match &res {
                Ok(Ok(DhtNetworkResult::PutSuccess { replicated_to, peer_outcomes, .. })) =>
                    (false, *replicated_to as u64, peer_outcomes.iter().map(|o| (o.peer_id.clone(), o.success)).collect::<Vec<_>>()),
                Ok(Ok(other)) => { sum.violation(cid, "put returned an unexpected result", &[], json!(format!("{other:?}"))); (false, 0, vec![]) }
                Ok(Err(_)) => (true, 0, vec![]),
                Err(_) => { sum.violation(cid, "put did not complete within 30 s", &[], json!({"world": wi})); continue; }
            };
            for s in init.iter().map(|x| &x.peer_id).chain(fn_reqs.iter()).chain(put_reqs.iter()).chain(outcomes.iter().map(|o| &o.0)) { ids.get(s); }
            let keys_tab = coq_list(ids.names.clone().iter().enumerate().map(|(i, s)| format!("({}, {})", i + 1, n_of_be(&dht_key_of(s)))));
            let term = format!("mkPut {} {} {} {} {} {} {} {} {} {} {} {} {} {} {} {} {}",
                keys_tab, coq_list(replies.into_iter()), silent_list,
                ids.get(&selfs[0]), coq_list([ids.get(&selfs[0]), ids.get(&selfs[1])].iter().map(|x| x.to_string())),
                coq_list(selfs.iter().map(|s| ids.map[s].to_string())), REPL,
                n_of_be(&key), vals.coq(&value), coq_list(init.iter().map(|x| ids.map[&x.peer_id].to_string())),
                pre, coq_bool(refused), replicated,
                coq_list(outcomes.iter().map(|(p, ok)| format!("({}, {})", ids.map[p], coq_bool(*ok)))),
                coq_list(fn_reqs.iter().map(|x| ids.map[x].to_string())),
                coq_list(put_reqs.iter().map(|x| ids.map[x].to_string())), post);
            let nontrivial = !refused && !put_reqs.is_empty();
            sum.count(&format!("put:size:{}", value.len()));
            sum.count(if refused { "put:refused" } else { "put:accepted" });
            sum.add("put:targets", put_reqs.len() as u64);
            sum.cases.insert(cid.to_string(), json!({"kind": "put", "term": term, "nontrivial": nontrivial, "desc": {
                "kind": "put", "world": wi, "nodes": n, "topology": topo, "origin": o, "key": hex::encode(key), "value_len": value.len(),
                "silent": (0..n).filter(|&i| silent[i]).collect::<Vec<_>>(), "find_node_requests": fn_reqs.len(), "put_targets": put_reqs.len(),
                "refused": refused, "replicated_to": replicated, "outcomes": outcomes.iter().map(|(p, ok)| json!([&p[..8.min(p.len())], ok])).collect::<Vec<_>>() }}));
            cid += 1;
        } else {
            let init = origin.manager.find_closest_nodes_local(&key, 6).await;
            let res = tokio::time::timeout(Duration::from_secs(40), origin.manager.get(&key)).await;
            let trace = net.take_trace();
            let (post, _) = grid(&nodes, &keys, &mut ids, &mut vals, &names, o).await;
            let reqs: Vec<&TraceEv> = trace.iter().filter(|e| e.is_request && e.from == origin.tid && e.op.starts_with("FindValue")).collect();
            let addr_owner: HashMap<String, String> = nodes.iter().map(|x| (x.addr.to_string(), x.tid.clone())).collect();
            let fv_reqs: Vec<String> = trace.iter().filter(|e| e.from == origin.tid).filter_map(|e| {
                if e.is_request && e.op.starts_with("FindValue") { Some(e.to.clone()) }
                else if e.op == "Dial:refused" { addr_owner.get(&e.to).cloned() } else { None } }).collect();
            let mut replies = vec![];
            for e in reqs.iter() {
                let resp = trace.iter().find(|r| !r.is_request && r.msg_id == e.msg_id && r.from == e.to && r.delivered && r.result.is_some());
                let r = match resp {
                    Some(r) if r.result.as_deref() == Some("NodesFound") => format!("FVNodes {}", coq_list(r.nodes.iter().map(|x| ids.get(x).to_string()))),
                    Some(r) if matches!(r.result.as_deref(), Some("GetNotFound") | Some("ValueFound") | Some("GetSuccess")) => "FVNotFound".into(),
                    _ => "FVFail".into(),
                };
                replies.push(format!("({}, {})", ids.get(&e.to), r));
            }
            let (found, queried, failed) = match &res {
                Ok(Ok(DhtNetworkResult::GetSuccess { value, source, .. })) => {
                    let src = if *source == names[o] { ids.get(&names[o]) } else {
                        match names.iter().position(|x| x == source) { Some(j) => ids.get(&nodes[j].tid), None => ids.get(source) } };
                    (Some((value.clone(), src)), 0u64, 0u64)
                }
                Ok(Ok(DhtNetworkResult::GetNotFound { peers_queried, peers_failed, .. })) => (None, *peers_queried as u64, *peers_failed as u64),
                Ok(Ok(other)) => { sum.violation(cid, "get returned an unexpected result", &[], json!(format!("{other:?}"))); continue; }
                Ok(Err(e)) => { sum.violation(cid, "get returned an error", &[], json!(e.to_string())); continue; }
                Err(_) => { sum.violation(cid, "get did not complete within 40 s", &[], json!({"world": wi})); continue; }
            };
            for s in init.iter().map(|x| &x.peer_id).chain(fv_reqs.iter()) { ids.get(s); }
            let term = format!("mkGet {} {} {} {} {} {} {} {} {} {} {} {}",
                coq_list(replies.into_iter()),
                ids.get(&selfs[0]), coq_list([ids.get(&selfs[0]), ids.get(&selfs[1])].iter().map(|x| x.to_string())),
                coq_list(selfs.iter().map(|s| ids.map[s].to_string())),
                n_of_be(&key), coq_list(init.iter().map(|x| ids.map[&x.peer_id].to_string())), pre,
                match &found { Some((v, src)) => format!("(Some ({}, {}))", vals.coq(v), src), None => "None".into() },
                queried, failed, coq_list(fv_reqs.iter().map(|x| ids.map[x].to_string())), post);
            sum.count(if found.is_some() { "get:found" } else { "get:not_found" });
            sum.add("get:requests", fv_reqs.len() as u64);
            let nontrivial = !fv_reqs.is_empty();
            sum.cases.insert(cid.to_string(), json!({"kind": "get", "term": term, "nontrivial": nontrivial, "desc": {
                "kind": "get", "world": wi, "nodes": n, "topology": topo, "origin": o, "key": hex::encode(key),
                "silent": (0..n).filter(|&i| silent[i]).collect::<Vec<_>>(), "find_value_requests": fv_reqs.len(),
                "found_len": found.as_ref().map(|f| f.0.len()), "peers_queried": queried, "peers_failed": failed }}));
            cid += 1;
        }
    }
    for nd in &nodes { net.set_silent(&nd.tid, false); }
    // a hostile peer answers a FIND_VALUE of node 0 with 4096 bytes: whatever get returns, nothing over 512 bytes
    // may be kept in the node's store (and a later get must not serve it from there)
    {
        let hid = hex::encode(rng.bytes(32));
        let haddr = "10.200.200.1:9000";
        let big = vec![0x5Au8; 4096];
        let big2 = big.clone();
        let beh: Behaviour = std::sync::Arc::new(move |me, msg| match &msg.payload {
            DhtNetworkOperation::FindValue { key } | DhtNetworkOperation::Get { key } =>
                Reply::Result(DhtNetworkResult::ValueFound { key: *key, value: big2.clone(), source: me.to_string() }),
            DhtNetworkOperation::FindNode { key } => Reply::Result(DhtNetworkResult::NodesFound { key: *key, nodes: vec![] }),
            DhtNetworkOperation::Leave => Reply::Result(DhtNetworkResult::LeaveSuccess),
            _ => Reply::Silent });
        net.add_scripted(&hid, haddr, beh);
        let _ = nodes[0].transport.connect_peer(haddr).await;
        let mg = nodes[0].manager.clone(); let hid2 = hid.clone();
        wait_until(|| { let mg = mg.clone(); let h = hid2.clone(); async move { mg.get_connected_peers().await.iter().any(|p| p.peer_id == h) } }, Duration::from_secs(3)).await;
        // a key next to the hostile peer's own DHT key, so that it is among the first candidates
        let mut hk = dht_key_of(&hid); hk[31] ^= 1;
        let r = tokio::time::timeout(Duration::from_secs(30), nodes[0].manager.get(&hk)).await;
        let held = nodes[0].manager.get_local(&hk).await.ok().flatten();
        sum.count("hostile_oversize_value_probes");
        if held.as_ref().map(|v| v.len() > 512).unwrap_or(false) {
            sum.violation(910000 + wi, "a value over 512 bytes taken from a peer's FIND_VALUE reply entered the node's store", &[],
                json!({"held_len": held.map(|v| v.len()), "get_returned": format!("{:?}", r.map(|x| x.map(|y| match y { DhtNetworkResult::GetSuccess { value, .. } => format!("GetSuccess({} bytes)", value.len()), o => format!("{o:?}").chars().take(60).collect() }))).chars().take(200).collect::<String>()}));
        }
        let _ = big;
    }
    for nd in &nodes {
        let _ = tokio::time::timeout(Duration::from_secs(10), nd.manager.stop()).await;
        let _ = tokio::time::timeout(Duration::from_secs(5), nd.transport.stop()).await;
    }
    Ok(sum)
}

fn main() {
    let args = Args::parse();
    install_trace_sink();
    let rt = tokio::runtime::Builder::new_multi_thread().worker_threads(8).enable_all().build().unwrap();
    let mut rng = Rng::new(args.seed);
    let mut sum = Summary::default();
    sum.rule = "2..10 real nodes over the in-memory router (mesh / ring / random / star connectivity), sequential interleaved put and get from arbitrary non-silent nodes over 4 keys and values of 0,1,37,511,512,513,600 bytes (sometimes re-using an earlier value), nodes turned silent and back at random; before and after every operation the local store of every node is read for every key. Non-trivial = a put with at least one remote target, or a get that sent at least one request; distinct = different (world seed, op index)".into();
    let mut wp = CaseWriter::new(&args.out, "cases_c03p", HEADER, "pcase", "check_pcase", "prop_pcase", 12);
    let mut wg = CaseWriter::new(&args.out, "cases_c03g", HEADER, "gcase", "check_gcase", "prop_gcase", 12);
    let worlds = if args.thorough() { 200 } else { 24 };
    let conc = 8usize;
    let (mut pid, mut gid) = (0u64, 500000u64);
    let mut wi = 0;
    while wi < worlds {
        let futs: Vec<_> = (0..conc.min(worlds - wi)).map(|k| run_world((wi + k) as u64, rng.fork())).collect();
        for (k, o) in rt.block_on(futures::future::join_all(futs)).into_iter().enumerate() {
            match o {
                Ok(local) => {
                    for (kn, nn) in local.distribution.iter() { sum.add(kn, *nn); }
                    sum.direct_violations.extend(local.direct_violations.iter().cloned());
                    let mut ks: Vec<u64> = local.cases.keys().filter_map(|x| x.parse().ok()).collect(); ks.sort();
                    for kk in ks {
                        let v = &local.cases[&kk.to_string()];
                        let term = v["term"].as_str().unwrap_or("").to_string();
                        let id = if v["kind"] == "put" { pid += 1; wp.push(pid, term); pid } else { gid += 1; wg.push(gid, term); gid };
                        sum.evaluations += 1;
                        if v["nontrivial"].as_bool().unwrap_or(false) { sum.distinct_nontrivial += 1; }
                        sum.case(id, v["desc"].clone());
                    }
                }
                Err(e) => { sum.notes.push(format!("world {} failed: {e}", wi + k)); sum.count("world_failed"); }
            }
        }
        wi += conc;
    }
    wp.flush(); wg.flush();
    sum.write(&args.out);
    std::process::exit(0);
}
