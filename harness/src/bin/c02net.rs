//! C02, manager level: the node lists in FIND_NODE / FIND_VALUE replies of REAL nodes (2..12 nodes over the
//! in-memory router) against the rule of Props/C02.v `C02_reply`: the nearest `cap` of everything the replying
//! node knows (table plus connected peers), each peer once and under its transport id, never the replying
//! node itself, ascending distance, at most DHT_CLOSEST_NODES_COUNT.  What a node knows is READ from it before
//! and after every lookup: the entries of its routing table (verif-hooks accessor) plus its connected peers -
//! not inferred from the connections the harness made, because the admission gates (C13) may keep a connected
//! peer out of the table, and such a peer stops being known when its connection closes.  Knowledge can change
//! while a node answers (the requester dials it), so membership is checked against what was known at either
//! end of the lookup and completeness against what was known at both ends.  Every reply becomes a Coq case (Model/Routing.v `rcase`):
//! `check_rcase` evaluates the model's `reply_nodes` on it (meaning: Props/C02.v `C02_reply_check`),
//! `prop_rcase` the conclusion of `C02_reply`; the same predicate is also evaluated here.  The requester is
//! dropped AFTER the cut at the cap (filter_response_nodes), so a reply may be one short when the requester is
//! among the nearest cap.
use saorsa_core::dht_network_manager::*;
use serde_json::json;
use std::collections::{HashMap, HashSet};
use std::net::SocketAddr;
use std::time::Duration;
use vh::net::*;
use vh::*;

const CAP: usize = 8; // DHT_CLOSEST_NODES_COUNT; the Coq cases use the regenerated RT_DHT_CLOSEST_NODES_COUNT (pinned = 8 in Props/C02.v)
const HEADER: &str = "From SV Require Import Lib.Base Gen.RoutingConsts Model.Routing.\nLocal Open Scope N_scope.";

/// payload of a model node: index of the identifier string in a per-world table
fn nd(idx: &mut HashMap<String, usize>, id: &str) -> String {
    let n = idx.len(); let i = *idx.entry(id.to_string()).or_insert(n);
    format!("nd {} {}", n_of_be(&dht_key_of(id)), i)
}
fn nds<'a, I: IntoIterator<Item = &'a String>>(idx: &mut HashMap<String, usize>, xs: I) -> String {
    let mut v: Vec<&String> = xs.into_iter().collect(); v.sort();
    coq_list(v.into_iter().map(|x| nd(idx, x)))
}

fn dist(id: &str, key: &[u8; 32]) -> [u8; 32] {
    let k = dht_key_of(id); let mut d = [0u8; 32];
    for i in 0..32 { d[i] = k[i] ^ key[i]; }
    d
}

async fn connected(n: &Node) -> HashSet<String> {
    n.manager.get_connected_peers().await.into_iter().map(|p| p.peer_id).collect()
}

/// What a node knows, as the property defines it: its routing table plus its connected peers.  Table entries
/// are keyed by DHT key; each is named by the transport id of the node of this world that has that key (the
/// identifier a reply must use), or by the hex key if no node of the world has it.  A peer the admission
/// gates refused (IP diversity: e.g. a second IPv4-mapped address in one /64; property C13, an input here)
/// is known only while it is connected.
async fn known(n: &Node, tid_by_key: &HashMap<[u8; 32], String>) -> HashSet<String> {
    let mut k = connected(n).await;
    for (key, _addr) in n.manager.verif_routing_table_entries().await {
        k.insert(tid_by_key.get(&key).cloned().unwrap_or_else(|| hex::encode(key)));
    }
    k
}

async fn run_world(wi: u64, mut rng: Rng) -> anyhow::Result<Summary> {
    let mut sum = Summary::default();
    let net = SimNet::new();
    let n = rng.range(2, 12) as usize;
    let mut nodes = vec![]; let mut names = vec![];
    for i in 0..n {
        let name = format!("c02w{}n{}x{}", wi, i, rng.below(1 << 20));
        // every address family the transport can report for a peer: IPv4, global IPv6 and IPv4-mapped IPv6
        // (what a dual-stack listener reports for an IPv4 client)
        let addr: SocketAddr = match (wi as usize + i) % 5 {
            3 => format!("[2001:db8:{:x}:{:x}::1]:9000", i + 1, i + 1).parse()?,
            4 => format!("[::ffff:10.{}.{}.1]:9000", i + 1, i + 1).parse()?,
            _ => format!("10.{}.{}.1:9000", i + 1, i + 1).parse()?,
        };
        // every third world: nodes whose claimed identifier IS their transport id (the requester filter then bites)
        let aligned = wi % 3 == 0;
        let nd_ = spawn_node_opts(&net, &name, addr, Duration::from_millis(250), Duration::from_millis(250), 8, aligned).await?;
        names.push(if aligned { nd_.tid.clone() } else { name });
        nodes.push(nd_);
    }
    let mut degree = vec![0usize; n];
    for i in 0..n { for j in (i + 1)..n {
        if rng.chance(3, 5) || j == i + 1 {
            let _ = nodes[i].transport.connect_peer(&nodes[j].addr.to_string()).await;
            degree[i] += 1; degree[j] += 1;
        }
    } }
    for i in 0..n {
        let mg = nodes[i].manager.clone(); let want = degree[i];
        wait_until(|| { let mg = mg.clone(); async move { mg.get_connected_peers().await.len() >= want } }, Duration::from_secs(3)).await;
    }
    let self_ids: Vec<HashSet<String>> = (0..n).map(|i| [names[i].clone(), nodes[i].tid.clone(), hex::encode(dht_key_of(&names[i]))].into_iter().collect()).collect();
    let tid_index: HashMap<String, usize> = nodes.iter().enumerate().map(|(i, x)| (x.tid.clone(), i)).collect();
    let tid_by_key: HashMap<[u8; 32], String> = nodes.iter().map(|x| (dht_key_of(&x.tid), x.tid.clone())).collect();
    let mut idx: HashMap<String, usize> = HashMap::new();
    let mut cid = 800000u64 + wi * 1000;   // disjoint from the case ids of the main C02 harness
    // what a node knows = its routing table plus its connected peers, read before and after every lookup.  A
    // closed connection leaves the routing-table entry (and the name it is listed under) in place; a peer the
    // admission gates kept out of the table stops being known when its connection closes.
    for _ in 0..6 {
        // every second world: connections close between the lookups (the peer stays known and must keep its name)
        if wi % 2 == 1 && rng.chance(2, 3) {
            let i = rng.below(n as u64) as usize;
            let mut cur: Vec<String> = connected(&nodes[i]).await.into_iter().collect(); cur.sort();
            if !cur.is_empty() {
                let j = rng.pick(&cur).clone();
                let _ = nodes[i].transport.disconnect_peer(&j).await;
                // the manager learns of it through its event loop: wait until it has, so that the event cannot
                // be processed in the middle of the next lookup (between the two readings of what the node knows)
                let (mg, jj) = (nodes[i].manager.clone(), j.clone());
                wait_until(|| { let (mg, jj) = (mg.clone(), jj.clone()); async move { !mg.get_connected_peers().await.iter().any(|p| p.peer_id == jj) } }, Duration::from_secs(3)).await;
                tokio::time::sleep(Duration::from_millis(60)).await;
                sum.count("connection_closed");
            }
        }
        let o = rng.below(n as u64) as usize;
        let key: [u8; 32] = match rng.below(4) { 0 => dht_key_of(&nodes[rng.below(n as u64) as usize].tid), 1 => [0u8; 32], _ => { let b = rng.bytes(32); let mut k = [0u8; 32]; k.copy_from_slice(&b); k } };
        let mut seen_before: Vec<HashSet<String>> = vec![];
        for x in nodes.iter() { seen_before.push(known(x, &tid_by_key).await); }
        net.take_trace();
        let use_get = rng.chance(1, 3);
        if use_get { let _ = tokio::time::timeout(Duration::from_secs(30), nodes[o].manager.get(&key)).await; }
        else { let _ = tokio::time::timeout(Duration::from_secs(30), nodes[o].manager.find_closest_nodes(&key, *rng.pick(&[3usize, 8, 20]))).await; }
        let trace = net.take_trace();
        let mut seen_after: Vec<HashSet<String>> = vec![];
        for x in nodes.iter() { seen_after.push(known(x, &tid_by_key).await); }
        // Knowledge normally only grows during a lookup (the requester dials the replier), but the event of a
        // connection closed just before may still be in flight: completeness is demanded of what was known at
        // both ends (`before`), membership is allowed in what was known at either end (`after`).
        let before: Vec<HashSet<String>> = (0..n).map(|i| seen_before[i].intersection(&seen_after[i]).cloned().collect()).collect();
        let after: Vec<HashSet<String>> = (0..n).map(|i| seen_before[i].union(&seen_after[i]).cloned().collect()).collect();
        for i in 0..n {
            let c = connected(&nodes[i]).await;
            sum.add("known_not_connected", after[i].iter().filter(|u| !c.contains(*u)).count() as u64);
            sum.add("connected_not_in_table", { let t: HashSet<[u8; 32]> = nodes[i].manager.verif_routing_table_entries().await.into_iter().map(|e| e.0).collect(); c.iter().filter(|u| !t.contains(&dht_key_of(u))).count() as u64 });
            if before[i].len() != after[i].len() { sum.count("knowledge_changed_during_lookup"); }
        }
        for e in trace.iter().filter(|e| !e.is_request && e.result.as_deref() == Some("NodesFound")) {
            let Some(&x) = tid_index.get(&e.from) else { continue };
            let l = &e.nodes;
            let mut problems: Vec<String> = vec![];
            if l.len() > CAP { problems.push(format!("reply names {} nodes (cap {})", l.len(), CAP)); }
            let uniq: HashSet<&String> = l.iter().collect();
            if uniq.len() != l.len() { problems.push("a peer is named twice".into()); }
            let keys: HashSet<[u8; 32]> = l.iter().map(|i| dht_key_of(i)).collect();
            if keys.len() != l.len() { problems.push("two entries share a DHT key".into()); }
            for id in l.iter() {
                if self_ids[x].contains(id) { problems.push(format!("the replying node names itself ({})", &id[..8.min(id.len())])); }
                if !after[x].contains(id) { problems.push(format!("names a peer the node does not know / under another identifier ({})", &id[..8.min(id.len())])); }
            }
            for w in l.windows(2) { if dist(&w[0], &key) > dist(&w[1], &key) { problems.push("not in ascending distance order".into()); break; } }
            let requester = &e.to;
            let req_known = after[x].contains(requester);
            for u in before[x].iter() {
                if self_ids[x].contains(u) || u == requester || l.contains(u) { continue; }
                let beyond_all = l.iter().all(|w| dist(u, &key) > dist(w, &key));
                let full = l.len() >= CAP;
                let requester_took_a_slot = l.len() + 1 >= CAP && req_known && dist(u, &key) > dist(requester, &key);
                if !(beyond_all && (full || requester_took_a_slot)) { problems.push(format!("omits known peer {} although it is nearer than a named peer or the reply is short", &u[..8])); }
            }
            // the same reply as a case for the Coq model (ids in sorted order: the model's result does not depend on the order)
            let selfks = coq_list(self_ids[x].iter().map(|i| n_of_be(&dht_key_of(i))));
            // filter_response_nodes compares the named transport ids with the identifier the requester CLAIMS in its
            // request (message.source = its configured local_peer_id), which is what the model's requester stands for
            let claimed = tid_index.get(requester).map(|&r| names[r].clone()).unwrap_or_else(|| requester.clone());
            let term = format!("({}, {}, {}, RT_DHT_CLOSEST_NODES_COUNT, {}, {}, {})", selfks, nd(&mut idx, &claimed), n_of_be(&key),
                nds(&mut idx, before[x].iter()), nds(&mut idx, after[x].iter()), coq_list(l.iter().map(|i| nd(&mut idx, i))));
            sum.cases.insert(cid.to_string(), json!({"term": term, "desc": {"kind": "manager reply", "world": wi, "replier": x, "requester": &requester[..8.min(requester.len())],
                "key": hex::encode(key), "reply": l.iter().map(|i| i[..8.min(i.len())].to_string()).collect::<Vec<_>>(), "known_before": before[x].len(), "known_after": after[x].len()}}));
            sum.evaluations += 1;
            if l.len() >= 2 { sum.distinct_nontrivial += 1; }
            sum.count(&format!("reply_len:{}", l.len()));
            if tid_index.get(requester).map(|&r| names[r] == *requester).unwrap_or(false) { sum.count("requester_claims_transport_id"); }
            if !problems.is_empty() {
                sum.violation(cid, "a node list in a FIND_NODE / FIND_VALUE reply violates the closest-known rule", &[],
                    json!({"world": wi, "replier": x, "key": hex::encode(key), "reply": l.iter().map(|i| i[..8.min(i.len())].to_string()).collect::<Vec<_>>(),
                           "known_before": before[x].iter().map(|i| i[..8].to_string()).collect::<Vec<_>>(), "problems": problems,
                           "node_index_of": before[x].iter().map(|i| (i[..8].to_string(), tid_index.get(i).map(|&n| n as i64).unwrap_or(-1))).collect::<HashMap<String, i64>>(),
                           "replier_id": nodes[x].tid.clone(), "replier_name": names[x].clone(),
                           "connected_now": connected(&nodes[x]).await.iter().map(|i| i[..8].to_string()).collect::<Vec<_>>(),
                           "table_now": nodes[x].manager.verif_routing_table_entries().await.iter().map(|e| format!("{}@{}", &hex::encode(e.0)[..8], e.1)).collect::<Vec<_>>()}));
            }
            if sum.samples.len() < 2 { sum.samples.push(json!({"replier": x, "key": hex::encode(key), "reply_len": l.len(), "known": before[x].len()})); }
            cid += 1;
        }
    }
    for nd in &nodes {
        let _ = tokio::time::timeout(Duration::from_secs(10), nd.manager.stop()).await;
        let _ = tokio::time::timeout(Duration::from_secs(5), nd.transport.stop()).await;
    }
    Ok(sum)
}

fn main() {
    let args = Args::parse();
    install_trace_sink();
    let rt = tokio::runtime::Builder::new_multi_thread().worker_threads(8).enable_all().build().unwrap();
    let mut rng = Rng::new(args.seed ^ 0x0c02);
    let mut sum = Summary::default();
    sum.rule = "manager level: node lists in the FIND_NODE / FIND_VALUE replies of 2..12 real nodes (random connectivity) during lookups and gets for random / peer-equal / zero keys: at most 8, each peer once under its transport id, never the replier itself, ascending distance, members known to the replier, nothing nearer omitted (one slot may go to the requester, which is dropped after the cut); what a replier knows = its routing-table entries (verif-hooks accessor) plus its connected peers, read before and after each lookup (complete over what is known at both ends, members from what is known at either end); connections are closed between lookups in every second world, and peers the admission gates keep out of the table (a second IPv4-mapped address in one /64) are known only while connected; every reply is also evaluated against the model's reply_nodes inside Coq (check_rcase / prop_rcase)".into();
    let worlds = if args.thorough() { 120 } else { 10 };
    let mut w = CaseWriter::new(&args.out, "cases_c02net", HEADER, "rcase", "check_rcase", "prop_rcase", 120);
    let mut wi = 0;
    while wi < worlds {
        let futs: Vec<_> = (0..5usize.min(worlds - wi)).map(|k| run_world((wi + k) as u64, rng.fork())).collect();
        for o in rt.block_on(futures::future::join_all(futs)) {
            match o {
                Ok(local) => {
                    for (kn, nn) in local.distribution.iter() { sum.add(&format!("net:{kn}"), *nn); }
                    sum.direct_violations.extend(local.direct_violations.iter().cloned());
                    sum.evaluations += local.evaluations; sum.distinct_nontrivial += local.distinct_nontrivial;
                    let mut ids: Vec<u64> = local.cases.keys().filter_map(|k| k.parse().ok()).collect(); ids.sort();
                    for id in ids {
                        let v = &local.cases[&id.to_string()];
                        w.push(id, v["term"].as_str().unwrap_or("").to_string());
                        sum.case(id, v["desc"].clone());
                    }
                    if sum.samples.len() < 3 { sum.samples.extend(local.samples.iter().cloned()); }
                }
                Err(e) => { sum.notes.push(format!("world failed: {e}")); sum.count("world_failed"); }
            }
        }
        wi += 5;
    }
    let v = json!({"evaluations": sum.evaluations, "distinct_nontrivial": sum.distinct_nontrivial, "rule": sum.rule, "distribution": sum.distribution,
        "samples": sum.samples, "direct_violations": sum.direct_violations, "discarded_ambiguous": 0, "notes": sum.notes});
    std::fs::write(args.out.join("summary_extra.json"), serde_json::to_string_pretty(&v).unwrap()).unwrap();
    w.flush();
    std::fs::write(args.out.join("cases_extra.json"), serde_json::to_string(&sum.cases).unwrap()).unwrap();
    std::process::exit(0);
}
