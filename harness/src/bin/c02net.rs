//! C02, manager level: the node lists in FIND_NODE / FIND_VALUE replies of REAL nodes (2..12 nodes over the
//! in-memory router) against the rule of Props/C02.v `C02_reply`: the nearest `cap` of everything the replying
//! node knows (table plus connected peers), each peer once and under its transport id, never the replying
//! node itself, ascending distance, at most DHT_CLOSEST_NODES_COUNT.  What a node knows can grow while it
//! answers (the requester dials it), so membership is checked against the knowledge AFTER the lookup and
//! completeness against the knowledge BEFORE it.  The predicate is evaluated here (property check on the
//! implementation's own replies); the closed-form rule itself is the Coq theorem.
use saorsa_core::dht_network_manager::*;
use serde_json::json;
use std::collections::{HashMap, HashSet};
use std::net::SocketAddr;
use std::time::Duration;
use vh::net::*;
use vh::*;

const CAP: usize = 8; // DHT_CLOSEST_NODES_COUNT; the translator pins MGR_DHT_CLOSEST_NODES_COUNT = 8 in Props/C02.v

fn dist(id: &str, key: &[u8; 32]) -> [u8; 32] {
    let k = dht_key_of(id); let mut d = [0u8; 32];
    for i in 0..32 { d[i] = k[i] ^ key[i]; }
    d
}

async fn known(n: &Node) -> HashSet<String> {
    n.manager.get_connected_peers().await.into_iter().map(|p| p.peer_id).collect()
}

async fn run_world(wi: u64, mut rng: Rng) -> anyhow::Result<Summary> {
    let mut sum = Summary::default();
    let net = SimNet::new();
    let n = rng.range(2, 12) as usize;
    let mut nodes = vec![]; let mut names = vec![];
    for i in 0..n {
        let name = format!("c02w{}n{}x{}", wi, i, rng.below(1 << 20));
        // every address family the transport can report for a peer: IPv4, global IPv6 and IPv4-mapped IPv6
        // (what a dual-stack listener reports for an IPv4 client)
        let addr: SocketAddr = match (wi as usize + i) % 5 {
            3 => format!("[2001:db8:{:x}:{:x}::1]:9000", i + 1, i + 1).parse()?,
            4 => format!("[::ffff:10.{}.{}.1]:9000", i + 1, i + 1).parse()?,
            _ => format!("10.{}.{}.1:9000", i + 1, i + 1).parse()?,
        };
        nodes.push(spawn_node(&net, &name, addr, Duration::from_millis(250), 8).await?);
        names.push(name);
    }
    let mut degree = vec![0usize; n];
    for i in 0..n { for j in (i + 1)..n {
        if rng.chance(3, 5) || j == i + 1 {
            let _ = nodes[i].transport.connect_peer(&nodes[j].addr.to_string()).await;
            degree[i] += 1; degree[j] += 1;
        }
    } }
    for i in 0..n {
        let mg = nodes[i].manager.clone(); let want = degree[i];
        wait_until(|| { let mg = mg.clone(); async move { mg.get_connected_peers().await.len() >= want } }, Duration::from_secs(3)).await;
    }
    let self_ids: Vec<HashSet<String>> = (0..n).map(|i| [names[i].clone(), nodes[i].tid.clone(), hex::encode(dht_key_of(&names[i]))].into_iter().collect()).collect();
    let tid_index: HashMap<String, usize> = nodes.iter().enumerate().map(|(i, x)| (x.tid.clone(), i)).collect();
    let mut cid = 800000u64 + wi * 1000;   // disjoint from the case ids of the main C02 harness
    for _ in 0..6 {
        let o = rng.below(n as u64) as usize;
        let key: [u8; 32] = match rng.below(4) { 0 => dht_key_of(&nodes[rng.below(n as u64) as usize].tid), 1 => [0u8; 32], _ => { let b = rng.bytes(32); let mut k = [0u8; 32]; k.copy_from_slice(&b); k } };
        let mut before: Vec<HashSet<String>> = vec![];
        for x in &nodes { before.push(known(x).await); }
        net.take_trace();
        let use_get = rng.chance(1, 3);
        if use_get { let _ = tokio::time::timeout(Duration::from_secs(30), nodes[o].manager.get(&key)).await; }
        else { let _ = tokio::time::timeout(Duration::from_secs(30), nodes[o].manager.find_closest_nodes(&key, *rng.pick(&[3usize, 8, 20]))).await; }
        let trace = net.take_trace();
        let mut after: Vec<HashSet<String>> = vec![];
        for x in &nodes { after.push(known(x).await); }
        for e in trace.iter().filter(|e| !e.is_request && e.result.as_deref() == Some("NodesFound")) {
            let Some(&x) = tid_index.get(&e.from) else { continue };
            let l = &e.nodes;
            let mut problems: Vec<String> = vec![];
            if l.len() > CAP { problems.push(format!("reply names {} nodes (cap {})", l.len(), CAP)); }
            let uniq: HashSet<&String> = l.iter().collect();
            if uniq.len() != l.len() { problems.push("a peer is named twice".into()); }
            let keys: HashSet<[u8; 32]> = l.iter().map(|i| dht_key_of(i)).collect();
            if keys.len() != l.len() { problems.push("two entries share a DHT key".into()); }
            for id in l.iter() {
                if self_ids[x].contains(id) { problems.push(format!("the replying node names itself ({})", &id[..8.min(id.len())])); }
                if !after[x].contains(id) { problems.push(format!("names a peer the node does not know / under another identifier ({})", &id[..8.min(id.len())])); }
            }
            for w in l.windows(2) { if dist(&w[0], &key) > dist(&w[1], &key) { problems.push("not in ascending distance order".into()); break; } }
            let requester = &e.to;
            for u in before[x].iter() {
                if self_ids[x].contains(u) || u == requester || l.contains(u) { continue; }
                let farther_than_all = l.len() >= CAP && l.last().map(|w| dist(u, &key) >= dist(w, &key)).unwrap_or(false);
                if !farther_than_all { problems.push(format!("omits known peer {} although it is nearer than the farthest entry (or the reply is short)", &u[..8])); }
            }
            sum.evaluations += 1;
            if l.len() >= 2 { sum.distinct_nontrivial += 1; }
            sum.count(&format!("reply_len:{}", l.len()));
            if !problems.is_empty() {
                sum.violation(cid, "a node list in a FIND_NODE / FIND_VALUE reply violates the closest-known rule", &[],
                    json!({"world": wi, "replier": x, "key": hex::encode(key), "reply": l.iter().map(|i| i[..8.min(i.len())].to_string()).collect::<Vec<_>>(),
                           "known_before": before[x].iter().map(|i| i[..8].to_string()).collect::<Vec<_>>(), "problems": problems}));
            }
            if sum.samples.len() < 2 { sum.samples.push(json!({"replier": x, "key": hex::encode(key), "reply_len": l.len(), "known": before[x].len()})); }
            cid += 1;
        }
    }
    for nd in &nodes {
        let _ = tokio::time::timeout(Duration::from_secs(10), nd.manager.stop()).await;
        let _ = tokio::time::timeout(Duration::from_secs(5), nd.transport.stop()).await;
    }
    Ok(sum)
}

fn main() {
    let args = Args::parse();
    install_trace_sink();
    let rt = tokio::runtime::Builder::new_multi_thread().worker_threads(8).enable_all().build().unwrap();
    let mut rng = Rng::new(args.seed ^ 0x0c02);
    let mut sum = Summary::default();
    sum.rule = "manager level: node lists in the FIND_NODE / FIND_VALUE replies of 2..12 real nodes (random connectivity) during lookups and gets for random / peer-equal / zero keys: at most 8, each peer once under its transport id, never the replier itself, ascending distance, members known to the replier, nothing nearer omitted".into();
    let worlds = if args.thorough() { 120 } else { 10 };
    let mut wi = 0;
    while wi < worlds {
        let futs: Vec<_> = (0..5usize.min(worlds - wi)).map(|k| run_world((wi + k) as u64, rng.fork())).collect();
        for o in rt.block_on(futures::future::join_all(futs)) {
            match o {
                Ok(local) => {
                    for (kn, nn) in local.distribution.iter() { sum.add(&format!("net:{kn}"), *nn); }
                    sum.direct_violations.extend(local.direct_violations.iter().cloned());
                    sum.evaluations += local.evaluations; sum.distinct_nontrivial += local.distinct_nontrivial;
                    if sum.samples.len() < 3 { sum.samples.extend(local.samples.iter().cloned()); }
                }
                Err(e) => { sum.notes.push(format!("world failed: {e}")); sum.count("world_failed"); }
            }
        }
        wi += 5;
    }
    let v = json!({"evaluations": sum.evaluations, "distinct_nontrivial": sum.distinct_nontrivial, "rule": sum.rule, "distribution": sum.distribution,
        "samples": sum.samples, "direct_violations": sum.direct_violations, "discarded_ambiguous": 0, "notes": sum.notes});
    std::fs::write(args.out.join("summary_extra.json"), serde_json::to_string_pretty(&v).unwrap()).unwrap();
    std::fs::write(args.out.join("cases_extra.json"), "{}").unwrap();
    std::process::exit(0);
}
