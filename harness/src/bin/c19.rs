//! C19 correspondence: every textual address round trip the library performs
//! (four-word form, Display/FromStr, serde, the consumers of rendered strings)
//! on the REAL code vs Model/Address.v.
//!
//! Rust side (all inputs): round-trip predicates evaluated directly, every call under
//! catch_unwind.  Model side (stratified subset, evaluated in Coq): word indices digit by
//! digit through the crate's dictionary, the Display text, and what FromStr / the std
//! parsers / the consumers return for each string.
use saorsa_core::address::NetworkAddress;
use saorsa_core::bootstrap::fourwords::dictionary4k::DICTIONARY;
use saorsa_core::bootstrap::WordEncoder as BootEncoder;
use saorsa_core::dht::core_engine::{DhtCoreEngine, NodeCapacity, NodeId, NodeInfo};
use saorsa_core::identity::{FourWordAddress as IdWords, WordEncoder as IdEncoder};
use serde_json::json;
use std::net::{IpAddr, Ipv4Addr, Ipv6Addr, SocketAddr, SocketAddrV6};
use std::panic::{catch_unwind, AssertUnwindSafe};
use std::str::FromStr;
use vh::*;

const HEADER: &str = "From SV Require Import Lib.Base Gen.AddressDict Gen.AddressGlue Model.Address.\nLocal Open Scope N_scope.";

#[derive(Clone, Debug, PartialEq)]
enum Res { None, V4([u8; 4], u16), Oracle }
impl Res {
    fn of(sa: Option<SocketAddr>) -> Res {
        match sa { None => Res::None, Some(SocketAddr::V4(a)) => Res::V4(a.ip().octets(), a.port()), Some(SocketAddr::V6(_)) => Res::Oracle }
    }
    fn coq(&self) -> String {
        match self { Res::None => "RNone".into(), Res::Oracle => "ROracle".into(),
            Res::V4(o, p) => format!("(R4 (mkA {} {} {} {} {}))", o[0], o[1], o[2], o[3], p) }
    }
}
fn cps(s: &str) -> String { coq_list(s.chars().map(|c| (c as u32).to_string())) }
static LAST_PANIC: std::sync::Mutex<String> = std::sync::Mutex::new(String::new());
fn guard<T>(f: impl FnOnce() -> T) -> Result<T, ()> { catch_unwind(AssertUnwindSafe(f)).map_err(|_| ()) }
fn last_panic() -> String { LAST_PANIC.lock().map(|s| s.clone()).unwrap_or_default() }

/// the address-string handling of DhtNetworkManager::multiaddr_from_address / dial_candidate.
/// Those functions are private; this mirror is tied to the source by translator/gen_address.py,
/// which re-reads the separator literal of both call sites into Gen/AddressGlue.v on every run.
fn strip_consumer(address: &str) -> Option<SocketAddr> {
    let clean = address.split(" (").next().unwrap_or(address);
    clean.parse::<SocketAddr>().ok()
}
/// multiaddr_from_address end to end: strip, parse, reject unspecified, render as /ipX/../tcp/.., parse as NetworkAddress
fn multiaddr_consumer(address: &str) -> Option<SocketAddr> {
    let sa = strip_consumer(address)?;
    if sa.ip().is_unspecified() { return None; }
    let proto = if sa.ip().is_ipv4() { "ip4" } else { "ip6" };
    format!("/{}/{}/tcp/{}", proto, sa.ip(), sa.port()).parse::<NetworkAddress>().ok().map(|n| n.socket_addr())
}

struct Ck<'a> { sum: &'a mut Summary, id: u64, tags: Vec<&'static str>, v6_known: u64 }
impl<'a> Ck<'a> {
    /// The IPv6 side of four-word-networking (6/9/12 words) is an oracle of the model; its failures to
    /// round-trip are the known class `ipv6-word-codec-lossy` (external crate).  Shapes are counted.
    fn v6_codec(&mut self, sa: SocketAddr, got: Option<SocketAddr>, via: &str, words: &str) {
        let shape = match got {
            None => "decode-error",
            Some(g) if g.ip() == sa.ip() && g.port() == 65535 => "port-lost(65535)",
            Some(g) if g.ip() == sa.ip() => "port-changed",
            Some(g) if g.port() == sa.port() => "address-bits-lost",
            Some(_) => "address-and-port-changed",
        };
        self.sum.count(&format!("v6-codec:{}", shape));
        self.sum.violation(self.id, "IPv6 four-word round trip (four-word-networking 6/9/12-word codec) does not give the address back",
            &["ipv6-word-codec-lossy"], json!({"addr": sa.to_string(), "via": via, "got": format!("{:?}", got), "shape": shape, "words": words}));
        self.v6_known += 1;
    }
    fn fail(&mut self, what: &str, detail: serde_json::Value) {
        let tags = self.tags.clone();
        self.sum.violation(self.id, what, &tags, detail);
    }
}

/// All Rust-side predicates for one socket address.  Returns the observations used by the Coq case.
struct AddrObs { words: Option<String>, display: String, from_words: Res, fromstr_display: Res, strip: Res, multi: Res, boot: Res, idrt: Res }

fn observe_addr(sa: SocketAddr, light: bool, ck: &mut Ck) -> Option<AddrObs> {
    let txt = sa.to_string();
    let Ok(na) = guard(|| NetworkAddress::new(sa)) else { ck.fail("NetworkAddress::new panicked", json!({"addr": txt})); return None; };
    let words = na.four_words().map(|s| s.to_string());
    let display = na.to_string();
    // 1. four-word round trip
    let from_words = match &words {
        None => { ck.fail("no four-word form produced for the address", json!({"addr": txt})); Res::None }
        Some(w) => match guard(|| NetworkAddress::from_four_words(w)) {
            Err(()) => { ck.fail("from_four_words panicked on the library's own words", json!({"addr": txt, "words": w})); Res::None }
            Ok(r) => {
                let got = r.as_ref().ok().map(|n| n.socket_addr());
                if got != Some(sa) && sa.is_ipv6() {
                    ck.v6_codec(sa, got, "from_four_words", w);
                } else if got != Some(sa) {
                    ck.fail("four-word round trip: from_four_words(words the library produced) is not the same address",
                        json!({"addr": txt, "words": w, "got": format!("{:?}", r.as_ref().map(|n| n.socket_addr()).map_err(|e| e.to_string()))}));
                }
                Res::of(got)
            }
        },
    };
    // 2. Display -> FromStr
    let fromstr_display = match guard(|| display.parse::<NetworkAddress>()) {
        Err(()) => { ck.fail("FromStr panicked on the library's own Display output", json!({"display": display})); Res::None }
        Ok(r) => {
            let got = r.as_ref().ok().map(|n| n.socket_addr());
            if got != Some(sa) || r.as_ref().ok() != Some(&na) {
                ck.fail("FromStr(Display(addr)) is not the same address", json!({"addr": txt, "display": display, "got": format!("{:?}", r.map_err(|e| e.to_string()))}));
            }
            Res::of(got)
        }
    };
    // 3. consumers of the rendered string
    let strip = strip_consumer(&display);
    if strip != Some(sa) { ck.fail("suffix-stripping consumer does not recover the address from the rendered string", json!({"display": display})); }
    let multi = guard(|| multiaddr_consumer(&display)).unwrap_or(None);
    let want_multi = if sa.ip().is_unspecified() { None } else { Some(sa) };
    if multi != want_multi { ck.fail("multiaddr_from_address pipeline does not recover the address from the rendered string", json!({"display": display, "got": format!("{:?}", multi)})); }
    // 4. serde
    if !light {
        match guard(|| { let j = serde_json::to_string(&na).ok()?; serde_json::from_str::<NetworkAddress>(&j).ok() }) {
            Ok(Some(b)) if b == na => {}
            other => ck.fail("serde_json round trip of NetworkAddress changed the value", json!({"addr": txt, "got": format!("{:?}", other)})),
        }
        match guard(|| { let b = postcard::to_stdvec(&na).ok()?; postcard::from_bytes::<NetworkAddress>(&b).ok() }) {
            Ok(Some(b)) if b == na => {}
            other => ck.fail("postcard round trip of NetworkAddress changed the value", json!({"addr": txt, "got": format!("{:?}", other)})),
        }
    }
    // 5. bootstrap::WordEncoder (a second facade over the same codec)
    let boot = match guard(|| { let e = BootEncoder::new(); let w = e.encode_socket_addr(&sa).map_err(|e| e.to_string())?; e.decode_to_socket_addr(&w).map_err(|e| format!("{} <- {}", e, w.0)) }) {
        Err(()) => { ck.fail("bootstrap::WordEncoder panicked", json!({"addr": txt})); Res::None }
        Ok(r) => {
            if r.as_ref().ok() != Some(&sa) && sa.is_ipv6() { ck.v6_codec(sa, r.as_ref().ok().copied(), "bootstrap::WordEncoder", ""); }
            else if r.as_ref().ok() != Some(&sa) { ck.fail("bootstrap::WordEncoder: decode_to_socket_addr(encode_socket_addr(addr)) is not the same address", json!({"addr": txt, "got": format!("{:?}", r)})); }
            Res::of(r.ok())
        }
    };
    // 6. identity::FourWordAddress / WordEncoder on the same six bytes (IPv4 only)
    let mut idrt = Res::Oracle;
    if let SocketAddr::V4(v4) = sa {
        let mut b = [0u8; 6];
        b[..4].copy_from_slice(&v4.ip().octets()); b[4..].copy_from_slice(&v4.port().to_be_bytes());
        match guard(|| { let w = IdEncoder::encode(&b).map_err(|e| e.to_string())?; let back = IdEncoder::decode(&w).map_err(|e| e.to_string())?;
                         let pre = w.to_hash_prefix().map_err(|e| e.to_string())?; let parsed = IdWords::parse_str(&w.to_string()).map_err(|e| e.to_string())?;
                         Ok::<_, String>((w, back, pre, parsed)) }) {
            Ok(Ok((w, back, pre, parsed))) => {
                if back != b || pre != b || parsed != w { ck.fail("identity::WordEncoder round trip of six address bytes changed them", json!({"addr": txt, "words": w.0})); }
                if Some(w.0.as_str()) != words.as_deref() { ck.fail("identity::FourWordAddress and NetworkAddress render different words for the same ip:port", json!({"addr": txt, "id": w.0, "net": words})); }
                if !saorsa_core::fwid::fw_check([w.words()[0].clone(), w.words()[1].clone(), w.words()[2].clone(), w.words()[3].clone()]) {
                    ck.fail("fwid::fw_check rejects words the library produced", json!({"words": w.0}));
                }
                idrt = if back.len() == 6 { Res::V4([back[0], back[1], back[2], back[3]], u16::from_be_bytes([back[4], back[5]])) } else { Res::None };
            }
            other => { ck.fail("identity::WordEncoder failed on six address bytes", json!({"addr": txt, "got": format!("{:?}", other.map(|r| r.map(|_| ())))})); idrt = Res::None; }
        }
    }
    Some(AddrObs { words, display, from_words, fromstr_display, strip: Res::of(strip), multi: Res::of(multi), boot, idrt })
}

fn word_indices(words: &str) -> Option<Vec<u16>> {
    words.split('-').map(|w| DICTIONARY.get_index(w)).collect()
}

const OCT: [u8; 10] = [0, 1, 9, 10, 99, 100, 127, 128, 254, 255];
const PORTS: [u16; 12] = [0, 1, 9, 10, 99, 100, 999, 1000, 9999, 10000, 65534, 65535];

fn v4(o: [u8; 4], p: u16) -> SocketAddr { SocketAddr::new(IpAddr::V4(Ipv4Addr::new(o[0], o[1], o[2], o[3])), p) }

fn addr_case(id: u64, sa: SocketAddr, o: &AddrObs) -> Option<String> {
    let SocketAddr::V4(a) = sa else { return None };
    let oc = a.ip().octets();
    let idx = o.words.as_deref().and_then(word_indices).unwrap_or_default();
    let _ = id;
    Some(format!("CAddr (mkA {} {} {} {} {}) {} {} {} {} {} {} {} {}", oc[0], oc[1], oc[2], oc[3], a.port(),
        coq_list(idx.iter().map(|i| i.to_string())), cps(&o.display), o.from_words.coq(), o.fromstr_display.coq(), o.strip.coq(), o.multi.coq(), o.boot.coq(), o.idrt.coq()))
}

/// string cases: what the real parsers return for an arbitrary string
fn str_case(s: &str, id: u64, sum: &mut Summary, kind: &str) -> String {
    let fs = guard(|| NetworkAddress::from_str(s));
    let fs_res = match &fs {
        Err(()) => { sum.violation(id, "NetworkAddress::from_str panicked", &[], json!({"input": s, "kind": kind, "panic": last_panic()})); Res::None }
        Ok(r) => Res::of(r.as_ref().ok().map(|n| n.socket_addr())),
    };
    let fw = guard(|| NetworkAddress::from_four_words(s));
    let fw_res = match &fw {
        Err(()) => { sum.violation(id, "NetworkAddress::from_four_words panicked", &[], json!({"input": s, "kind": kind, "panic": last_panic()})); Res::None }
        Ok(r) => Res::of(r.as_ref().ok().map(|n| n.socket_addr())),
    };
    let sock = Res::of(SocketAddr::from_str(s).ok());
    let ip4 = match Ipv4Addr::from_str(s) { Ok(i) => Res::V4(i.octets(), 0), Err(_) => Res::None };
    let u = match u16::from_str(s) { Ok(p) => Res::V4([0; 4], p), Err(_) => Res::None };
    let strip = Res::of(strip_consumer(s));
    let multi = Res::of(guard(|| multiaddr_consumer(s)).unwrap_or(None));
    // an accepted string must re-render to something that parses to the same address (no "different address")
    if let Ok(Ok(n)) = &fs {
        let again = n.to_string().parse::<NetworkAddress>().ok().map(|m| m.socket_addr());
        if again != Some(n.socket_addr()) && !(n.to_string().contains(" (")) {
            sum.violation(id, "accepted string re-renders to a different address", &[], json!({"input": s}));
        }
    }
    sum.count(&format!("str:{}", kind));
    sum.count(match fs_res { Res::None => "fromstr:rejected", Res::V4(..) => "fromstr:v4", Res::Oracle => "fromstr:v6" });
    format!("CStr {} {} {} {} {} {} {} {}", cps(s), fs_res.coq(), fw_res.coq(), sock.coq(), ip4.coq(), u.coq(), strip.coq(), multi.coq())
}

fn gen_strings(rng: &mut Rng, n: usize) -> Vec<(String, &'static str)> {
    let mut out: Vec<(String, &'static str)> = vec![];
    let fixed: &[&str] = &["", " ", "(", " (", ")", "a", "a b c", "a b c d", "a-b-c-d", "a.b.c.d", "a b c d e", "a  b c d", " a b c d", "a b c d ", "a\tb\tc\td", "a\tb c d e",
        "1.2.3.4", "1.2.3.4:", ":80", "1.2.3.4:80", "1.2.3.4:080", "1.2.3.4:00000000000000000080", "1.2.3.4:+80", "1.2.3.4:65535", "1.2.3.4:65536", "1.2.3.4:99999999999999999999999999",
        "01.2.3.4:80", "1.02.3.4:80", "1.2.3.04:80", "00.0.0.0:0", "0.0.0.0:0", "256.1.1.1:1", "1.2.3:80", "1.2.3.4.5:80", "1..2.3:80", "1.2.3.4 :80", " 1.2.3.4:80", "1.2.3.4:80 ", "1.2.3.4:80\n",
        "1.2.3.4:80 (", "1.2.3.4:80 ()", "1.2.3.4:80 (x)", "1.2.3.4:80 (x) (y)", "1.2.3.4:80 (a-b-c-d", "1.2.3.4:80(a-b-c-d)", "1.2.3.4:80  (a-b-c-d)", "1.2.3.4 (a-b-c-d)", "1.2.3.4:65536 (a-b-c-d)", "x (1.2.3.4:80)",
        "/ip4/1.2.3.4/tcp/80", "/ip4/1.2.3.4/tcp/080", "/ip4/1.2.3.4/tcp/+80", "/ip4/1.2.3.4/tcp/65536", "/ip4/1.2.3.4/tcp/", "/ip4/1.2.3.4/udp/80", "/ip4/1.2.3.4/tcp/80/quic", "/ip4//1.2.3.4//tcp//80", "/ip4/1.2.3.4/tcp",
        "/ip4/01.2.3.4/tcp/80", "/ip4/1.2.3.4:80/tcp/80", "/ip6/1.2.3.4/tcp/80", "/ip4/::1/tcp/80", "/ip6/::1/tcp/80", "/ip5/1.2.3.4/tcp/80", "ip4/1.2.3.4/tcp/80", "/ip4/a-b-c-d/tcp/80", "/ip4/1.2.3.4/tcp/80 (x)",
        "[::1]:80", "[::1]:65535", "::1", "[::1]", "[fe80::1%3]:80", "[fe80::1%eth0]:80", "[::ffff:1.2.3.4]:80", "[::1]:80 (a b)", "１.２.３.４:80", "1.2.3.4:８０", "1.2.3.4：80",
        "\u{212a}ite a a a", "\u{130} a a a", "a\u{a0}b c d", "a b c d\u{a0}", "a b c\u{2003}d", "a\u{a0}b\u{a0}c\u{a0}d", "é a a a", "日本 語 a a", "a b c d\u{0}", "\u{feff}a b c d",
        "A B C D", "A-b-C-d", "a-b c-d", "a-b c d", "a.b c.d", "a.b-c.d", "a..b.c.d", ".a.b.c.d", "a.b.c.d.", "a--b-c-d", "-a-b-c-d", "a-b-c-d-", "a - b - c - d", "a_b_c_d", "a,b,c,d",
        "zzzzqq a a a", "a a a zzzzqq", "__MARKER_END__ a a a", "a a a a a a", "a a a a a a a a a", "a a a a a a a a a a a a", "a a a a a a a a"];
    for s in fixed { out.push((s.to_string(), "fixed")); }
    let word = |rng: &mut Rng| DICTIONARY.get_word(rng.below(4096) as u16).unwrap_or("a").to_string();
    while out.len() < n {
        let o = [*rng.pick(&OCT), *rng.pick(&OCT), rng.next() as u8, *rng.pick(&OCT)];
        let p = if rng.chance(1, 2) { *rng.pick(&PORTS) } else { rng.next() as u16 };
        let sa = v4(o, p);
        let na = NetworkAddress::new(sa);
        let words = na.four_words().unwrap_or("a-a-a-a").to_string();
        let ws: Vec<String> = words.split('-').map(|s| s.to_string()).collect();
        match rng.below(12) {
            // separator / case variants of the word form
            0 => {
                let seps = [" ", "-", "  ", " - ", ".", "\t", "- ", "\u{a0}", "_"];
                let mut s = String::new();
                if rng.chance(1, 8) { s.push_str(*rng.pick(&[" ", "-", "\t"][..])); }
                for (i, w) in ws.iter().enumerate() {
                    if i > 0 { s.push_str(if rng.chance(3, 4) { *rng.pick(&seps[..2]) } else { *rng.pick(&seps[..]) }); }
                    let w2: String = match rng.below(4) { 0 => w.to_uppercase(), 1 => w.chars().enumerate().map(|(j, c)| if (j + i) % 2 == 0 { c.to_ascii_uppercase() } else { c }).collect(), _ => w.clone() };
                    s.push_str(&w2);
                }
                if rng.chance(1, 8) { s.push_str(*rng.pick(&[" ", "-", "\n"][..])); }
                out.push((s, "word-variants"));
            }
            // word-count / unknown-word errors
            1 => {
                let k = *rng.pick(&[0usize, 1, 2, 3, 5, 6, 7, 8, 9, 12, 13][..]);
                let mut v: Vec<String> = (0..k).map(|_| word(rng)).collect();
                if k > 0 && rng.chance(1, 3) { let i = rng.below(k as u64) as usize; v[i] = format!("{}q", v[i]); }
                out.push((v.join(if rng.chance(1, 2) { " " } else { "-" }), "word-count"));
            }
            2 => {
                let mut v = ws.clone();
                let i = rng.below(4) as usize;
                v[i] = match rng.below(5) { 0 => String::new(), 1 => format!("{}x", v[i]), 2 => "12".into(), 3 => v[i].chars().rev().collect(), _ => format!("{}é", v[i]) };
                out.push((v.join("-"), "word-mutated"));
            }
            // mutated socket text
            3 | 4 => {
                let mut cs: Vec<char> = sa.to_string().chars().collect();
                let i = rng.below(cs.len() as u64 + 1) as usize;
                let ins = *rng.pick(&['0', '1', '9', '.', ':', ' ', '+', '-', 'a', '(', '/', '٣'][..]);
                match rng.below(3) { 0 => cs.insert(i, ins), 1 => { if i < cs.len() { cs.remove(i); } } _ => { if i < cs.len() { cs[i] = ins; } } }
                out.push((cs.into_iter().collect(), "socket-mutated"));
            }
            // numeric edges: leading zeros, overflow
            5 => {
                let z = "0".repeat(rng.range(1, 3) as usize);
                let s = match rng.below(5) {
                    0 => format!("{}.{}.{}.{}:{}{}", o[0], o[1], o[2], o[3], z, p),
                    1 => format!("{}{}.{}.{}.{}:{}", z, o[0], o[1], o[2], o[3], p),
                    2 => format!("{}.{}.{}.{}:{}", o[0], o[1], o[2] as u32 + 256, o[3], p),
                    3 => format!("{}.{}.{}.{}:{}", o[0], o[1], o[2], o[3], p as u32 + 65536),
                    _ => format!("{}.{}.{}.{}{}:{}", o[0], o[1], o[2], o[3], z, p),
                };
                out.push((s, "numeric-edge"));
            }
            // the library's rendering, perturbed
            6 | 7 => {
                let d = na.to_string();
                let s = match rng.below(8) {
                    0 => d.clone(),
                    1 => d.replace(" (", "("),
                    2 => d.trim_end_matches(')').to_string(),
                    3 => format!("{} ", d),
                    4 => d.replace('-', " "),
                    5 => format!("{} ({})", sa, word(rng)),
                    6 => { let other = NetworkAddress::new(v4([o[3], o[2], o[1], o[0]], p.wrapping_add(1))); format!("{} ({})", sa, other.four_words().unwrap_or("")) }
                    _ => format!("{} ({})", words, sa),
                };
                out.push((s, "display-variants"));
            }
            // multiaddr forms
            8 | 9 => {
                let s = match rng.below(8) {
                    0 => format!("/ip4/{}/tcp/{}", sa.ip(), p),
                    1 => format!("/ip4/{}/tcp/0{}", sa.ip(), p),
                    2 => format!("/ip4/{}/tcp/+{}", sa.ip(), p),
                    3 => format!("/ip4/{}/tcp/{}", sa.ip(), p as u32 + 65536),
                    4 => format!("/ip4/{}/udp/{}", sa.ip(), p),
                    5 => format!("/ip6/{}/tcp/{}/p2p/x", sa.ip(), p),
                    6 => format!("/ip4/{}.{}.{}/tcp/{}", o[0], o[1], o[2], p),
                    _ => format!("//ip4/{}/tcp//{}", sa.ip(), p),
                };
                out.push((s, "multiaddr"));
            }
            // plain valid socket / bare ip
            10 => out.push((if rng.chance(1, 2) { sa.to_string() } else { sa.ip().to_string() }, "plain")),
            // random junk
            _ => {
                let alphabet: Vec<char> = "0123456789.:-() /abcxyz[]%+\u{e9}\u{a0}\u{212a}".chars().collect();
                let l = rng.below(24) as usize;
                out.push(((0..l).map(|_| *rng.pick(&alphabet)).collect(), "junk"));
            }
        }
    }
    out
}

fn v6_samples(rng: &mut Rng, n: usize) -> Vec<(SocketAddrV6, &'static str)> {
    let mut v: Vec<(SocketAddrV6, &'static str)> = vec![];
    let mk = |s: &str, p: u16| SocketAddrV6::new(s.parse::<Ipv6Addr>().unwrap(), p, 0, 0);
    for p in [0u16, 1, 80, 443, 9000, 65534, 65535] {
        v.push((mk("::1", p), "loopback"));
        v.push((mk("::", p), "unspecified"));
        v.push((mk("::ffff:192.168.1.1", p), "v4-mapped"));
        v.push((mk("::ffff:255.255.255.255", p), "v4-mapped"));
        v.push((mk("fe80::1", p), "link-local"));
        v.push((mk("fe80::abcd:ef01:2345:6789", p), "link-local"));
        v.push((mk("fc00::1", p), "unique-local"));
        v.push((mk("fd12:3456:789a:1::1", p), "unique-local"));
        v.push((mk("2001:db8::1", p), "documentation"));
        v.push((mk("2001:db8:85a3::8a2e:370:7334", p), "documentation"));
        v.push((mk("2606:4700:4700::1111", p), "global"));
        v.push((mk("2a00:1450:4001:81b::200e", p), "global"));
        v.push((mk("ff02::1", p), "multicast"));
        v.push((mk("ffff:ffff:ffff:ffff:ffff:ffff:ffff:ffff", p), "global"));
    }
    while v.len() < n {
        let mut b = rng.bytes(16);
        let class = match rng.below(6) {
            0 => { b[0] = 0xfe; b[1] = 0x80; for x in &mut b[2..8] { *x = 0; } "link-local" }
            1 => { for x in &mut b[..10] { *x = 0; } b[10] = 0xff; b[11] = 0xff; "v4-mapped" }
            2 => { b[0] = 0xfd; "unique-local" }
            3 => { b[0] = 0x20; b[1] = 0x01; b[2] = 0x0d; b[3] = 0xb8; "documentation" }
            4 => { b[0] = 0x2a; for x in &mut b[8..15] { *x = 0; } "global" }
            _ => { b[0] = 0x20 | (b[0] & 0x1f); "global" }
        };
        let mut a = [0u8; 16]; a.copy_from_slice(&b);
        let p = if rng.chance(1, 3) { *rng.pick(&PORTS) } else { rng.next() as u16 };
        v.push((SocketAddrV6::new(Ipv6Addr::from(a), p, 0, 0), class));
    }
    v
}

/// does DhtCoreEngine::add_node apply its per-IP admission gate to this address string?
/// (two different node ids with the same address: the default per-IPv4 limit is 1)
async fn add_node_gate(addr: &str, salt: u64) -> Result<bool, String> {
    // the configuration the node itself uses (DhtNetworkManager::init_dht_core): LogOnly close-group validation
    let mut eng: DhtCoreEngine = saorsa_core::verif_hooks::dht_core_engine_with_validation_mode(NodeId::from_bytes([7u8; 32]),
        saorsa_core::dht::routing_maintenance::close_group_validator::CloseGroupEnforcementMode::LogOnly).map_err(|e| e.to_string())?;
    let mut outcomes = vec![];
    for k in 0..3u8 {
        let mut id = [0u8; 32]; id[0] = 0x80 >> k; id[31] = k + 1; id[8] = salt as u8;
        let r = eng.add_node(NodeInfo { id: NodeId::from_bytes(id), address: addr.to_string(), last_seen: std::time::SystemTime::now(), capacity: NodeCapacity::default() }).await;
        outcomes.push(r.map_err(|e| e.to_string()));
    }
    if outcomes[0].is_err() { return Err(format!("first add_node failed: {:?}", outcomes[0])); }
    Ok(outcomes[1..].iter().any(|r| matches!(r, Err(e) if e.contains("IP diversity"))))
}

/// eviction must read the stored address string as the same socket address that admission read: after the only
/// node at an address is evicted (or fails), a newcomer at that address is admitted again
async fn add_node_release(addr: &str, salt: u64, by_failure: bool) -> Result<bool, String> {
    let mut eng: DhtCoreEngine = saorsa_core::verif_hooks::dht_core_engine_with_validation_mode(NodeId::from_bytes([7u8; 32]),
        saorsa_core::dht::routing_maintenance::close_group_validator::CloseGroupEnforcementMode::LogOnly).map_err(|e| e.to_string())?;
    let mk = |k: u8| { let mut id = [0u8; 32]; id[0] = 0x80 >> k; id[31] = k + 1; id[8] = salt as u8; NodeId::from_bytes(id) };
    let info = |k: u8| NodeInfo { id: mk(k), address: addr.to_string(), last_seen: std::time::SystemTime::now(), capacity: NodeCapacity::default() };
    eng.add_node(info(0)).await.map_err(|e| format!("first add_node failed: {e}"))?;
    if by_failure { eng.handle_node_failure(mk(0)).await.map_err(|e| e.to_string())?; }
    else { eng.evict_node(&mk(0), saorsa_core::dht::routing_maintenance::EvictionReason::Stale).await.map_err(|e| e.to_string())?; }
    Ok(eng.add_node(info(1)).await.is_ok())
}

fn main() {
    let args = Args::parse();
    install_trace_sink();
    std::panic::set_hook(Box::new(|info| {
        let loc = info.location().map(|l| format!("{}:{}", l.file().rsplit("registry/src/").next().unwrap_or(l.file()), l.line())).unwrap_or_default();
        let msg = info.payload().downcast_ref::<&str>().map(|s| s.to_string()).or_else(|| info.payload().downcast_ref::<String>().cloned()).unwrap_or_default();
        if let Ok(mut g) = LAST_PANIC.lock() { *g = format!("{} at {}", msg, loc); }
    }));
    let mut rng = Rng::new(args.seed);
    let mut sum = Summary::default();
    sum.rule = "IPv4: exhaustive product of boundary octets {0,1,9,10,99,100,127,128,254,255}^4 x 12 boundary ports plus seeded uniform samples of the 2^48 space (all checked in Rust; a stratified subset also evaluated by the Coq model: word indices digit by digit, Display text, every parser/consumer result); strings: fixed malformed corpus + generated separator/case variants, mutated renderings, numeric edges, multiaddr forms, junk (every one evaluated by the model); IPv6 classes round-tripped in Rust only (oracle). Non-trivial = string cases with distinct text + address cases with distinct address".into();
    let mut w = CaseWriter::new(&args.out, "cases_c19", HEADER, "c19case", "check_case", "prop_case", 100);
    let mut id = 0u64;
    let thorough = args.thorough();

    // ---- 0. dictionary, digit by digit
    for start in (0..4096u32).step_by(512) {
        let ws: Vec<String> = (start..start + 512).map(|i| cps(DICTIONARY.get_word(i as u16).unwrap_or(""))).collect();
        w.push(id, format!("CDict {} {}", start, coq_list(ws)));
        sum.case(id, json!({"kind": "dictionary", "start": start}));
        id += 1; sum.evaluations += 1;
    }
    sum.count("dictionary_words_compared"); sum.add("dictionary_words_compared", 4095);

    // ---- 1. IPv4 addresses
    let mut addrs: Vec<(SocketAddr, &'static str)> = vec![];
    for a in OCT { for b in OCT { for c in OCT { for d in OCT { for p in PORTS { addrs.push((v4([a, b, c, d], p), "boundary")); } } } } }
    let nrand: u64 = if thorough { 2_000_000 } else { 100_000 };
    let model_budget: u64 = if thorough { 12_000 } else { 1_500 };
    let total = addrs.len() as u64 + nrand;
    let stride_b = (addrs.len() as u64 / (model_budget / 2)).max(1);
    let stride_r = (nrand / (model_budget / 2)).max(1);
    let mut distinct = std::collections::HashSet::new();
    let t0 = std::time::Instant::now();
    for i in 0..total {
        let (sa, kind) = if (i as usize) < addrs.len() { addrs[i as usize] } else {
            let x = rng.next();
            (v4([(x >> 40) as u8, (x >> 32) as u8, (x >> 24) as u8, (x >> 16) as u8], x as u16), "sampled")
        };
        let to_model = if kind == "boundary" { i % stride_b == 0 || (sa.port() == 65535 && i % 97 == 0) } else { (i - addrs.len() as u64) % stride_r == 0 };
        let light = kind == "sampled" && !to_model && i % 16 != 0;
        let mut ck = Ck { sum: &mut sum, id, tags: vec![], v6_known: 0 };
        let obs = observe_addr(sa, light, &mut ck);
        sum.count(&format!("addr:{}", kind));
        if sa.port() == 65535 { sum.count("addr:port65535"); }
        if to_model {
            if let Some(o) = &obs {
                if let Some(term) = addr_case(id, sa, o) {
                    w.push(id, term);
                    sum.case(id, json!({"kind": "address", "class": kind, "addr": sa.to_string(), "display": o.display, "words": o.words}));
                    if distinct.insert(sa) { sum.distinct_nontrivial += 1; }
                    sum.count("addr:model-side");
                    id += 1;
                }
            }
        } else if !sum.direct_violations.is_empty() && sum.direct_violations.last().map(|v| v["case"] == json!(id)).unwrap_or(false) {
            // keep a replayable description of a failing Rust-only input
            sum.case(id, json!({"kind": "address", "class": kind, "addr": sa.to_string()}));
            id += 1;
        }
        sum.evaluations += 1;
        if sum.direct_violations.len() > 40 { sum.notes.push("stopped address sweep early: more than 40 direct violations".into()); break; }
    }
    sum.notes.push(format!("address sweep: {:.1}s", t0.elapsed().as_secs_f64()));

    // ---- 2. strings
    let nstr = if thorough { 8000 } else { 900 };
    let mut seen = std::collections::HashSet::new();
    for (s, kind) in gen_strings(&mut rng, nstr) {
        if !seen.insert(s.clone()) { continue; }
        let term = str_case(&s, id, &mut sum, kind);
        w.push(id, term);
        sum.case(id, json!({"kind": "string", "class": kind, "input": s}));
        sum.distinct_nontrivial += 1; sum.evaluations += 1;
        id += 1;
    }

    // ---- 3. IPv6 (oracle: Rust-side round trips only)
    let n6 = if thorough { 20_000 } else { 1_500 };
    let mut v6_known_total = 0u64;
    for (a6, class) in v6_samples(&mut rng, n6) {
        let sa = SocketAddr::V6(a6);
        let mut ck = Ck { sum: &mut sum, id, tags: vec![], v6_known: 0 };
        let before = ck.sum.direct_violations.len();
        let _ = observe_addr(sa, false, &mut ck);
        let known = ck.v6_known;
        v6_known_total += known;
        sum.count(&format!("v6:{}", class));
        let newv = (sum.direct_violations.len() - before) as u64;
        if newv > 0 {
            let tags: Vec<&str> = if newv == known { vec!["ipv6-word-codec-lossy"] } else { vec![] };
            sum.case(id, json!({"kind": "address6", "class": class, "addr": sa.to_string(), "tags": tags})); id += 1;
        }
        sum.evaluations += 1;
        // keep the summary small: known-class hits beyond 200 are only counted
        if v6_known_total > 200 && newv == known { let l = sum.direct_violations.len(); sum.direct_violations.truncate(l - newv as usize); }
        if sum.direct_violations.len() as u64 > v6_known_total.min(200) + 80 { break; }
    }
    // scoped / bracketed textual variants go through FromStr and the consumers only
    for s in ["[fe80::1%5]:9000", "[::1]:9000", "[::ffff:10.0.0.1]:9000", "[2001:db8::1]:65535"] {
        let sa: SocketAddr = s.parse().unwrap();
        let got = guard(|| s.parse::<NetworkAddress>().ok().map(|n| n.socket_addr())).unwrap_or(None);
        if got != Some(sa) { sum.violation(id, "FromStr does not accept a bracketed IPv6 socket address", &[], json!({"input": s})); sum.case(id, json!({"input": s})); id += 1; }
        let d = NetworkAddress::new(sa).to_string();
        if strip_consumer(&d) != Some(sa) { sum.violation(id, "suffix-stripping consumer fails on rendered IPv6 address", &[], json!({"display": d})); sum.case(id, json!({"display": d})); id += 1; }
        sum.count("v6:text-variants"); sum.evaluations += 1;
    }

    // ---- 4. the admission gate of DhtCoreEngine::add_node on rendered strings
    let rt = tokio::runtime::Builder::new_current_thread().enable_all().build().unwrap();
    let ngate = if thorough { 60 } else { 12 };
    for k in 0..ngate {
        let sa = if k % 4 == 3 { SocketAddr::V6(SocketAddrV6::new(Ipv6Addr::new(0x2001, 0xdb8, k as u16, 1, 0, 0, 0, 1), 9000, 0, 0)) }
                 else { v4([*rng.pick(&[8u8, 45, 91, 130, 200][..]), rng.next() as u8, rng.next() as u8, rng.range(1, 254) as u8], if k % 3 == 0 { 65535 } else { rng.range(1024, 65535) as u16 }) };
        let plain = sa.to_string();
        let rendered = NetworkAddress::new(sa).to_string();
        let control = rt.block_on(add_node_gate(&plain, k));
        let seen_r = rt.block_on(add_node_gate(&rendered, k));
        match (control, seen_r) {
            (Ok(true), Ok(true)) => sum.count("add_node:gate-applied"),
            (Ok(c), Ok(r)) => {
                // the gate must see the socket address in BOTH forms (plain "ip:port" / "[v6]:port" and the library's rendering)
                sum.count(if !c { "add_node:gate-skipped-on-plain-string" } else { "add_node:gate-skipped-on-rendered-string" });
                sum.violation(id, "DhtCoreEngine::add_node does not apply its IP-diversity gate to an address string the library itself produces (routing-table admission does not read it as that socket address)",
                    &[], json!({"plain": plain, "gate_applied_to_plain": c, "rendered": rendered, "gate_applied_to_rendered": r}));
                sum.case(id, json!({"kind": "add_node", "plain": plain, "rendered": rendered, "gate_applied_to_plain": c, "gate_applied_to_rendered": r}));
                id += 1;
            }
            (c, r) if false => { let _ = (c, r); }
            (c, r) => { sum.discarded_ambiguous += 1; sum.notes.push(format!("add_node control inconclusive for {}: {:?} / {:?}", plain, c, r)); }
        }
        // ... and the removal paths read the same strings the same way
        for (text, what) in [(&plain, "plain"), (&rendered, "rendered")] {
            match rt.block_on(add_node_release(text, k, k % 2 == 0)) {
                Ok(true) => sum.count("add_node:slot-returned-after-removal"),
                Ok(false) => {
                    sum.violation(id, "after the only node at an address was evicted / failed, a newcomer at the same library-produced address string is refused: the removal path does not read the string as the socket address admission charged", &[],
                        json!({"address": text, "form": what, "removed_by": if k % 2 == 0 { "handle_node_failure" } else { "evict_node" }}));
                    sum.case(id, json!({"kind": "add_node-release", "address": text, "form": what})); id += 1;
                }
                Err(e) => { sum.discarded_ambiguous += 1; sum.notes.push(format!("add_node release probe inconclusive for {}: {}", text, e)); }
            }
        }
        sum.evaluations += 1;
    }

    w.flush();
    sum.write(&args.out);
}
