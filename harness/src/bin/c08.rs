//! C08 correspondence: the real ML-DSA-65 path (RELEASE build: debug assertions off, the keyless debug
//! shim is compiled out) and every place the library checks signatures, against Model/Sig.v.
//!
//! * identities (generate, export->import, from_seed, derive path, SecureNodeIdentity): sign / verify own
//! * the primitive: every single-bit flip of a short message, sampled (quick) or exhaustive (thorough)
//!   bit flips of one signature and one public key, all ordered pairs of 4 identities -- this SAMPLES the
//!   hypotheses `sig_correct` / `ideal_sig` of Props/C08.v on the shipped build, it does not prove them
//! * glue: IPv4NodeID / IPv6NodeID::verify, SignatureVerifier::{verify_signature, verify_file},
//!   Single / Delegated / Threshold / CompositeWriteAuth::verify with valid inputs and with each conjunct
//!   broken in turn; the model is given the real leaf verdicts (ML-DSA verify, SHA-256, base64) as oracle
//!   tables and must reproduce the verdict of every glue function.
use saorsa_core::auth::{CompositeWriteAuth, DelegatedWriteAuth, PubKey, Sig, SingleWriteAuth, ThresholdWriteAuth, WriteAuth};
use saorsa_core::identity::node_identity::NodeIdentity;
use saorsa_core::identity::secure_node_identity::SecureNodeIdentity;
use saorsa_core::key_derivation::{DerivationPath, HierarchicalKeyDerivation, MasterSeed};
use saorsa_core::quantum_crypto::ant_quic_integration::{ml_dsa_sign, ml_dsa_verify, MlDsaPublicKey, MlDsaSecretKey, MlDsaSignature};
use saorsa_core::security::{IPv4NodeID, IPv6NodeID};
use saorsa_core::upgrade::{PinnedKey, SignatureVerifier, UpgradeError};
use serde_json::{json, Value};
use std::net::{Ipv4Addr, Ipv6Addr};
use vh::*;

const TAG_SEED: &str = "seed-derived-identity";
const TAG_THR: &str = "threshold-write-auth";
const PUB: usize = 1952;
const SEC: usize = 4032;
const SIGL: usize = 3309;

// ------------------------------------------------------------------ verdicts
#[derive(Clone, Copy, PartialEq, Eq, Debug)]
enum V { T, F, E }
impl V {
    fn coq(self) -> &'static str { match self { V::T => "VTrue", V::F => "VFalse", V::E => "VErr" } }
    fn of<E2>(r: Result<bool, E2>) -> V { match r { Ok(true) => V::T, Ok(false) => V::F, Err(_) => V::E } }
}
/// the real primitive on raw bytes; None when the typed values cannot even be built (the glue never gets that far)
fn vreal(pk: &[u8], m: &[u8], s: &[u8]) -> Option<V> {
    let pk = MlDsaPublicKey::from_bytes(pk).ok()?;
    let s = MlDsaSignature::from_bytes(s).ok()?;
    Some(V::of(ml_dsa_verify(&pk, m, &s)))
}

// ------------------------------------------------------------------ helpers: sha256 / hex / base64
fn unhex(s: &str) -> Vec<u8> {
    let b = s.as_bytes();
    (0..b.len() / 2).map(|i| u8::from_str_radix(std::str::from_utf8(&b[2 * i..2 * i + 2]).unwrap(), 16).unwrap()).collect()
}
/// SHA-256 through the library's own checksum routine (sha2 crate); the model treats it as an oracle
fn sha256(d: &[u8]) -> Vec<u8> { unhex(&SignatureVerifier::calculate_checksum(d)) }
fn b64(d: &[u8]) -> String {
    const A: &[u8; 64] = b"ABCDEFGHIJKLMNOPQRSTUVWXYZabcdefghijklmnopqrstuvwxyz0123456789+/";
    let mut o = String::new();
    for c in d.chunks(3) {
        let n = ((c[0] as u32) << 16) | ((*c.get(1).unwrap_or(&0) as u32) << 8) | (*c.get(2).unwrap_or(&0) as u32);
        o.push(A[(n >> 18) as usize & 63] as char);
        o.push(A[(n >> 12) as usize & 63] as char);
        o.push(if c.len() > 1 { A[(n >> 6) as usize & 63] as char } else { '=' });
        o.push(if c.len() > 2 { A[n as usize & 63] as char } else { '=' });
    }
    o
}

// ------------------------------------------------------------------ Coq terms with named blobs
/// Case files for the glue groups.  Long byte strings (keys, their base64 text, signatures, signed
/// messages) are written ONCE per file as `Definition sN : bytes := unpack <len> 0x<hex>.` (a hex
/// number literal is several times cheaper for coqc to read than a list literal) and referred to by name;
/// a byte string that contains named blobs is written as pieces around the names, one that differs from a
/// named blob in one byte as `set_nth i v NAME`.  Pure compression: every term denotes exactly the bytes.
struct Shards {
    out: std::path::PathBuf, idx: usize,
    known: Vec<(String, Vec<u8>)>,   // blobs with fixed names (identity keys), defined in a file on first use
    defs: Vec<(String, Vec<u8>)>,    // defined in the current file
    cases: Vec<(u64, String)>, auto: usize, max_cases: usize, max_blob_bytes: usize,
}
const BLOB_MIN: usize = 48;
impl Shards {
    fn new(out: &std::path::Path) -> Self { Shards { out: out.to_path_buf(), idx: 0, known: vec![], defs: vec![], cases: vec![], auto: 0, max_cases: 48, max_blob_bytes: 60_000 } }
    fn lit(&mut self, b: &[u8]) -> String {
        if b.len() < BLOB_MIN { return coq_bytes(b); }
        let n = format!("s{}", self.auto); self.auto += 1;
        self.defs.push((n.clone(), b.to_vec()));
        n
    }
    fn use_known(&mut self, i: usize) -> String {
        let (n, x) = self.known[i].clone();
        if !self.defs.iter().any(|(m, _)| *m == n) { self.defs.push((n.clone(), x)); }
        n
    }
    fn term(&mut self, b: &[u8]) -> String {
        if b.len() < BLOB_MIN { return coq_bytes(b); }
        // exact / one byte changed
        let near = |x: &Vec<u8>| -> Option<Vec<usize>> {
            if x.len() != b.len() { return None; }
            let mut d = vec![];
            for i in 0..b.len() { if x[i] != b[i] { d.push(i); if d.len() > 1 { return None; } } }
            Some(d)
        };
        for i in 0..self.defs.len() {
            if let Some(d) = near(&self.defs[i].1) { let n = self.defs[i].0.clone(); return if d.is_empty() { n } else { format!("(set_nth {}%nat {} {})", d[0], b[d[0]], n) }; }
        }
        for i in 0..self.known.len() {
            if let Some(d) = near(&self.known[i].1) { let n = self.use_known(i); return if d.is_empty() { n } else { format!("(set_nth {}%nat {} {})", d[0], b[d[0]], n) }; }
        }
        // pieces around contained blobs
        let mut pieces: Vec<String> = vec![];
        let mut i = 0; let mut lit: Vec<u8> = vec![]; let mut found = false;
        'outer: while i < b.len() {
            for src in 0..2 {
                let n = if src == 0 { self.defs.len() } else { self.known.len() };
                for j in 0..n {
                    let x = if src == 0 { &self.defs[j].1 } else { &self.known[j].1 };
                    if x.len() >= BLOB_MIN && b.len() - i >= x.len() && b[i..i + x.len()] == x[..] {
                        let xl = x.len();
                        let name = if src == 0 { self.defs[j].0.clone() } else { self.use_known(j) };
                        if !lit.is_empty() { let l = std::mem::take(&mut lit); pieces.push(self.lit(&l)); }
                        pieces.push(name); i += xl; found = true; continue 'outer;
                    }
                }
            }
            lit.push(b[i]); i += 1;
        }
        if !found { return self.lit(b); }
        if !lit.is_empty() { pieces.push(self.lit(&lit)); }
        if pieces.len() == 1 { pieces.pop().unwrap() } else { format!("({})", pieces.join(" ++ ")) }
    }
    fn push(&mut self, id: u64, term: String) {
        self.cases.push((id, term));
        let blob: usize = self.defs.iter().map(|d| d.1.len()).sum();
        if self.cases.len() >= self.max_cases || blob >= self.max_blob_bytes { self.flush(); }
    }
    fn flush(&mut self) {
        if self.cases.is_empty() { return; }
        use std::fmt::Write as _;
        let mut s = String::from("From SV Require Import Lib.Base Model.Sig.\nLocal Open Scope N_scope.\n");
        // chunks of at most 768 bytes: a longer hexadecimal literal can exhaust coqc's stack
        for (n, b) in &self.defs {
            let parts: Vec<String> = b.chunks(768).map(|c| format!("unpack {}%nat 0x{}", c.len(), hex::encode(c))).collect();
            let _ = writeln!(s, "Definition {} : bytes := {}.", n, parts.join(" ++ "));
        }
        let _ = writeln!(s, "Definition cases : list (N * c08case) := [");
        for (i, (id, t)) in self.cases.iter().enumerate() { let _ = writeln!(s, " ({}%N, {}){}", id, t, if i + 1 < self.cases.len() { ";" } else { "" }); }
        let _ = writeln!(s, "].");
        let _ = writeln!(s, "Eval vm_compute in (map fst (filter (fun c => negb (check_case (snd c))) cases), map fst (filter (fun c => negb (prop_case (snd c))) cases)).");
        std::fs::write(self.out.join(format!("cases_b_{:03}.v", self.idx)), s).expect("write cases");
        self.idx += 1; self.defs.clear(); self.cases.clear();
    }
}
struct Tabs { h: Vec<(Vec<u8>, Vec<u8>)>, v: Vec<(Vec<u8>, Vec<u8>, Vec<u8>, V)>, b: Vec<(Vec<u8>, Option<Vec<u8>>)> }
impl Tabs {
    fn new() -> Self { Tabs { h: vec![], v: vec![], b: vec![] } }
    fn hash(&mut self, m: &[u8]) -> Vec<u8> { let d = sha256(m); if !self.h.iter().any(|e| e.0 == m) { self.h.push((m.to_vec(), d.clone())); } d }
    fn verify(&mut self, pk: &[u8], m: &[u8], s: &[u8]) -> Option<V> {
        let r = vreal(pk, m, s)?;
        if !self.v.iter().any(|e| e.0 == pk && e.1 == m && e.2 == s) { self.v.push((pk.to_vec(), m.to_vec(), s.to_vec(), r)); }
        Some(r)
    }
    fn b64(&mut self, text: &str, dec: Option<&[u8]>) { if !self.b.iter().any(|e| e.0 == text.as_bytes()) { self.b.push((text.as_bytes().to_vec(), dec.map(|d| d.to_vec()))); } }
    fn coq_h(&self, n: &mut Shards) -> String { let v: Vec<String> = self.h.iter().map(|(m, d)| format!("({}, {})", n.term(m), coq_bytes(d))).collect(); coq_list(v) }
    fn coq_v(&self, n: &mut Shards) -> String { let v: Vec<String> = self.v.iter().map(|(p, m, s, v)| { let (a, b, c) = (n.term(p), n.term(m), n.term(s)); format!("({}, {}, {}, {})", a, b, c, v.coq()) }).collect(); coq_list(v) }
    fn coq_b(&self, n: &mut Shards) -> String { let v: Vec<String> = self.b.iter().map(|(t, d)| { let a = n.term(t); let b = match d { Some(d) => format!("Some {}", n.term(d)), None => "None".into() }; format!("({}, {})", a, b) }).collect(); coq_list(v) }
}

// ------------------------------------------------------------------ identities
#[derive(Clone)]
struct Id { kind: u8, how: String, pk: Vec<u8>, sk: Vec<u8> }
impl Id {
    fn pkt(&self) -> MlDsaPublicKey { MlDsaPublicKey::from_bytes(&self.pk).expect("pk") }
    fn skt(&self) -> MlDsaSecretKey { MlDsaSecretKey::from_bytes(&self.sk).expect("sk") }
    fn sign(&self, m: &[u8]) -> Vec<u8> { ml_dsa_sign(&self.skt(), m).expect("sign").as_bytes().to_vec() }
    fn tags(&self) -> Vec<&'static str> { if self.kind == 2 || self.kind == 3 { vec![TAG_SEED] } else { vec![] } }
}
fn of_node(kind: u8, how: &str, n: &NodeIdentity) -> Id { Id { kind, how: how.into(), pk: n.public_key().as_bytes().to_vec(), sk: n.secret_key_bytes().to_vec() } }
fn derive(master: &[u8; 32], path: &str) -> Id {
    let mut h = HierarchicalKeyDerivation::new(MasterSeed::from_entropy(master).expect("seed"));
    let k = h.derive_key(&DerivationPath::from_string(path).expect("path")).expect("derive");
    Id { kind: 3, how: format!("derive {}", path), pk: k.public_key.as_bytes().to_vec(), sk: k.secret_key.as_bytes().to_vec() }
}

struct Cx { w: CaseWriter, sh: Shards, glue: bool, sum: Summary, next: u64, rng: Rng, thorough: bool }
impl Cx {
    fn push(&mut self, group: &str, term: String, mut desc: Value, tags: &[&str]) -> u64 {
        let id = self.next; self.next += 1;
        desc["group"] = json!(group);
        if !tags.is_empty() { desc["tags"] = json!(tags); }
        self.sum.count(&format!("group:{}", group));
        if self.glue { self.sh.push(id, term) } else { self.w.push(id, term) }
        self.sum.case(id, desc);
        self.sum.evaluations += 1;
        id
    }
}

// ------------------------------------------------------------------ G1 sizes
fn g_len(cx: &mut Cx) {
    for (what, l) in [(0u8, PUB), (1, SEC), (2, SIGL)] {
        for n in [0usize, 32, 64, l - 1, l, l + 1] {
            let z = vec![0u8; n];
            let ok = match what { 0 => MlDsaPublicKey::from_bytes(&z).is_ok(), 1 => MlDsaSecretKey::from_bytes(&z).is_ok(), _ => MlDsaSignature::from_bytes(&z).is_ok() };
            cx.push("len", format!("CLen {} {} {}", what, n, coq_bool(ok)), json!({"type": (["public key", "secret key", "signature"][what as usize]), "length": n, "from_bytes_ok": ok}), &[]);
        }
    }
}

// ------------------------------------------------------------------ G2 identity constructors
fn ident_case(cx: &mut Cx, kind: u8, how: &str, pk: &[u8], sk: &[u8], sig: Option<Vec<u8>>, own: V, stable: bool, tags: &[&str]) {
    let siglen = sig.as_ref().map(|s| s.len()).unwrap_or(0);
    cx.sum.count(&format!("ident:kind{}:{}", kind, if own == V::T && stable { "ok" } else { "not-ok" }));
    cx.push("ident", format!("CIdent {} {} {} {} {} {} {}", kind, pk.len(), sk.len(), siglen, coq_bool(sig.is_some()), own.coq(), coq_bool(stable)),
        json!({"constructor": how, "kind": kind, "sign_ok": sig.is_some(), "verify_own_signature": format!("{:?}", own), "stable": stable}), tags);
}
fn g_ident(cx: &mut Cx) -> Vec<Id> {
    let n = if cx.thorough { 12 } else { 3 };
    let mut picked: Vec<Id> = vec![];
    for i in 0..n {
        let mlen = cx.rng.below(64) as usize;
        let m = cx.rng.bytes(mlen);
        // kind 0: generate
        let g = NodeIdentity::generate().expect("generate");
        let g2 = NodeIdentity::generate().expect("generate");
        let s = g.sign(&m).ok();
        let own = s.as_ref().map(|s| V::of(g.verify(&m, s))).unwrap_or(V::E);
        let free = s.as_ref().map(|s| V::of(ml_dsa_verify(g.public_key(), &m, s))).unwrap_or(V::E);
        let stable = g.public_key().as_bytes() != g2.public_key().as_bytes() && free == own
            && g.node_id() == &saorsa_core::identity::node_identity::NodeId::from_public_key(g.public_key());
        ident_case(cx, 0, "NodeIdentity::generate", g.public_key().as_bytes(), g.secret_key_bytes(), s.map(|s| s.as_bytes().to_vec()), own, stable, &[]);
        if i == 0 { picked.push(of_node(0, "generate", &g)); }
        // kind 1: export -> (JSON) -> import
        let data = g.export();
        let json_text = serde_json::to_string(&data).expect("json");
        let imp = NodeIdentity::import(&serde_json::from_str(&json_text).expect("json back")).expect("import");
        let s1 = imp.sign(&m).ok();
        let own1 = s1.as_ref().map(|s| V::of(imp.verify(&m, s))).unwrap_or(V::E);
        let cross = s1.as_ref().map(|s| V::of(g.verify(&m, s))).unwrap_or(V::E);
        let stable1 = imp.public_key().as_bytes() == g.public_key().as_bytes() && imp.secret_key_bytes() == g.secret_key_bytes()
            && cross == V::T && imp.node_id() == g.node_id();
        ident_case(cx, 1, "NodeIdentity::import(export(generate))", imp.public_key().as_bytes(), imp.secret_key_bytes(), s1.map(|s| s.as_bytes().to_vec()), own1, stable1, &[]);
        if i == 0 { picked.push(of_node(1, "export->import", &NodeIdentity::import(&NodeIdentity::generate().expect("generate").export()).expect("import"))); }
        // kind 2: from_seed
        let seed: [u8; 32] = if i == 0 { [0x42; 32] } else { cx.rng.bytes(32).try_into().unwrap() };
        let mut seed2 = seed; seed2[31] ^= 1;
        let f = NodeIdentity::from_seed(&seed).expect("from_seed");
        let fb = NodeIdentity::from_seed(&seed).expect("from_seed");
        let fo = NodeIdentity::from_seed(&seed2).expect("from_seed");
        let s2 = f.sign(&m).ok();
        let own2 = s2.as_ref().map(|s| V::of(f.verify(&m, s))).unwrap_or(V::E);
        let stable2 = f.public_key().as_bytes() == fb.public_key().as_bytes() && f.secret_key_bytes() == fb.secret_key_bytes()
            && f.public_key().as_bytes() != fo.public_key().as_bytes();
        ident_case(cx, 2, &format!("NodeIdentity::from_seed({})", hex::encode(seed)), f.public_key().as_bytes(), f.secret_key_bytes(), s2.map(|s| s.as_bytes().to_vec()), own2, stable2, &[TAG_SEED]);
        if i == 0 { picked.push(of_node(2, "from_seed", &f)); }
        // kind 3: hierarchical derivation
        let master: [u8; 32] = cx.rng.bytes(32).try_into().unwrap();
        let paths = ["m", "m/0", "m/0'", "m/0'/1", "m/2147483647'/4294967295", "m/1/2/3/4/5/6/7/8/9/10"];
        let p = paths[i % paths.len()];
        let d = derive(&master, p);
        let d2 = derive(&master, p);
        let other = derive(&master, if p == "m/0" { "m/1" } else { "m/0" });
        let s3 = ml_dsa_sign(&d.skt(), &m).ok();
        let own3 = s3.as_ref().map(|s| V::of(ml_dsa_verify(&d.pkt(), &m, s))).unwrap_or(V::E);
        // cached second derivation from one engine
        let mut h = HierarchicalKeyDerivation::new(MasterSeed::from_entropy(&master).expect("seed"));
        let path = DerivationPath::from_string(p).expect("path");
        let a = h.derive_key(&path).expect("derive"); let b = h.derive_key(&path).expect("derive");
        let stable3 = d.pk == d2.pk && d.sk == d2.sk && d.pk != other.pk && a.public_key.as_bytes() == b.public_key.as_bytes() && a.public_key.as_bytes() == &d.pk[..];
        ident_case(cx, 3, &format!("HierarchicalKeyDerivation::derive_key({})", p), &d.pk, &d.sk, s3.map(|s| s.as_bytes().to_vec()), own3, stable3, &[TAG_SEED]);
        if i == 0 { picked.push(derive(&master, "m/0'/1")); }
        // kinds 4, 5: SecureNodeIdentity (fresh keys in both constructors)
        let sg = SecureNodeIdentity::generate().expect("secure generate");
        let s4 = sg.sign(&m).ok();
        let own4 = s4.as_ref().map(|s| V::of(sg.verify(&m, s))).unwrap_or(V::E);
        let e = sg.export();
        ident_case(cx, 4, "SecureNodeIdentity::generate", &e.public_key, &e.secret_key, s4.map(|s| s.as_bytes().to_vec()), own4, true, &[]);
        let good: [u8; 32] = core::array::from_fn(|j| (j as u8).wrapping_mul(7).wrapping_add(i as u8));
        let ss = SecureNodeIdentity::from_seed(&good).expect("secure from_seed");
        let s5 = ss.sign(&m).ok();
        let own5 = s5.as_ref().map(|s| V::of(ss.verify(&m, s))).unwrap_or(V::E);
        let e5 = ss.export();
        ident_case(cx, 5, "SecureNodeIdentity::from_seed", &e5.public_key, &e5.secret_key, s5.map(|s| s.as_bytes().to_vec()), own5, true, &[]);
    }
    picked
}

// ------------------------------------------------------------------ G3 the primitive
fn prim(cx: &mut Cx, kind: u8, what: String, obs: V, tags: &[&str]) {
    cx.sum.count(&format!("prim:kind{}:{:?}", kind, obs));
    cx.push("prim", format!("CPrim {} {}", kind, obs.coq()), json!({"tamper": (["none", "message", "signature", "public key", "other identity's key"][kind as usize]), "what": what, "verdict": format!("{:?}", obs)}), tags);
}
fn flip(b: &[u8], bit: usize) -> Vec<u8> { let mut v = b.to_vec(); v[bit / 8] ^= 1 << (bit % 8); v }
fn g_prim(cx: &mut Cx, ids: &[Id]) {
    for (ii, id) in ids.iter().enumerate() {
        let tags = id.tags();
        let m = cx.rng.bytes(8);
        let s = id.sign(&m);
        prim(cx, 0, format!("id{} ({}) signs {}", ii, id.how, hex::encode(&m)), vreal(&id.pk, &m, &s).unwrap(), &tags);
        // a second signature of the same message is a different byte string (hedged signing) and verifies too
        let s_again = id.sign(&m);
        prim(cx, 0, format!("id{} signs the same message again (signatures differ: {})", ii, s != s_again), vreal(&id.pk, &m, &s_again).unwrap(), &tags);
        if id.kind == 2 || id.kind == 3 { if vreal(&id.pk, &m, &s) != Some(V::T) { continue; } }
        // every single-bit flip of the message, and length changes
        for bit in 0..64 { prim(cx, 1, format!("id{} message bit {} flipped", ii, bit), vreal(&id.pk, &flip(&m, bit), &s).unwrap(), &[]); }
        let mut longer = m.clone(); longer.push(0);
        for (alt, name) in [(m[..7].to_vec(), "last byte dropped"), (longer, "zero byte appended"), (vec![], "empty message"), (m[1..].to_vec(), "first byte dropped")] {
            prim(cx, 1, format!("id{} message {}", ii, name), vreal(&id.pk, &alt, &s).unwrap(), &[]);
        }
        // signature: boundary bits one by one, the rest as a sweep
        let mut sbits: Vec<usize> = vec![0, 7, 8, 255, 256, 383, 384, SIGL * 8 - 1, SIGL * 8 - 8, SIGL * 8 - 9, (SIGL - 61) * 8, (SIGL - 62) * 8 + 7];
        for _ in 0..(if cx.thorough { 64 } else { 12 }) { sbits.push(cx.rng.below((SIGL * 8) as u64) as usize); }
        for bit in sbits { prim(cx, 2, format!("id{} signature bit {} flipped", ii, bit), vreal(&id.pk, &m, &flip(&s, bit)).unwrap(), &[]); }
        let mut kbits: Vec<usize> = vec![0, 7, 8, 255, 256, 257, PUB * 8 - 1, PUB * 8 - 8];
        for _ in 0..(if cx.thorough { 64 } else { 12 }) { kbits.push(cx.rng.below((PUB * 8) as u64) as usize); }
        for bit in kbits { prim(cx, 3, format!("id{} public-key bit {} flipped", ii, bit), vreal(&flip(&id.pk, bit), &m, &s).unwrap(), &[]); }
        // all other identities' keys
        for (jj, other) in ids.iter().enumerate() {
            if jj != ii { prim(cx, 4, format!("signature of id{} checked under the key of id{}", ii, jj), vreal(&other.pk, &m, &s).unwrap(), &[]); }
        }
        // sweeps (aggregated): id0 exhaustive in thorough, sampled otherwise
        if ii == 0 || cx.thorough {
            let exhaustive = cx.thorough && ii == 0;
            for (kind, nbits_all) in [(2u8, SIGL * 8), (3u8, PUB * 8)] {
                let bits: Vec<usize> = if exhaustive { (0..nbits_all).collect() } else { (0..(if cx.thorough { 2048 } else { 384 })).map(|_| cx.rng.below(nbits_all as u64) as usize).collect() };
                let mut rejected = 0u64; let mut first_bad: Option<usize> = None;
                for &bit in &bits {
                    let v = if kind == 2 { vreal(&id.pk, &m, &flip(&s, bit)) } else { vreal(&flip(&id.pk, bit), &m, &s) }.unwrap();
                    if v != V::T { rejected += 1 } else if first_bad.is_none() { first_bad = Some(bit) }
                }
                cx.sum.add(&format!("sweep:kind{}:bits", kind), bits.len() as u64);
                cx.push("sweep", format!("CSweep {} {} {}", kind, bits.len(), rejected),
                    json!({"sweep": if kind == 2 { "signature bits" } else { "public-key bits" }, "identity": ii, "exhaustive": exhaustive, "bits": bits.len(), "rejected": rejected, "first_accepted_bit": first_bad}), &[]);
            }
        }
    }
}

// ------------------------------------------------------------------ G4 address-bound node ids
#[derive(Clone)]
struct Node { id: Vec<u8>, ip: Vec<u8>, pk: Vec<u8>, sig: Vec<u8>, ts: u64, salt: Vec<u8> }
fn node_msg(n: &Node) -> Vec<u8> { let mut m = n.ip.clone(); m.extend(&n.pk); m.extend(&n.salt); m.extend(n.ts.to_le_bytes()); m }
fn node_verify(n: &Node) -> V {
    if n.ip.len() == 4 {
        V::of(IPv4NodeID { node_id: n.id.clone(), ipv4_addr: Ipv4Addr::new(n.ip[0], n.ip[1], n.ip[2], n.ip[3]), public_key: n.pk.clone(), signature: n.sig.clone(), timestamp_secs: n.ts, salt: n.salt.clone() }.verify())
    } else {
        let a: [u8; 16] = n.ip.clone().try_into().unwrap();
        V::of(IPv6NodeID { node_id: n.id.clone(), ipv6_addr: Ipv6Addr::from(a), public_key: n.pk.clone(), signature: n.sig.clone(), timestamp_secs: n.ts, salt: n.salt.clone() }.verify())
    }
}
fn g_ip(cx: &mut Cx, ids: &[Id]) {
    let rounds = if cx.thorough { 6 } else { 1 };
    for round in 0..rounds {
        for v6 in [false, true] {
            for (ii, id) in ids.iter().enumerate() {
                let ip: Vec<u8> = if v6 { cx.rng.bytes(16) } else { cx.rng.bytes(4) };
                let genuine: Node = if v6 {
                    let a: [u8; 16] = ip.clone().try_into().unwrap();
                    let n = IPv6NodeID::generate(Ipv6Addr::from(a), &id.skt(), &id.pkt()).expect("generate v6");
                    Node { id: n.node_id, ip: n.ipv6_addr.octets().to_vec(), pk: n.public_key, sig: n.signature, ts: n.timestamp_secs, salt: n.salt }
                } else {
                    let n = IPv4NodeID::generate(Ipv4Addr::new(ip[0], ip[1], ip[2], ip[3]), &id.skt(), &id.pkt()).expect("generate v4");
                    Node { id: n.node_id, ip: n.ipv4_addr.octets().to_vec(), pk: n.public_key, sig: n.signature, ts: n.timestamp_secs, salt: n.salt }
                };
                let other = &ids[(ii + 1) % ids.len()];
                let other_node_sig = other.sign(&node_msg(&genuine));
                let nmut = 20;
                for k in 0..nmut {
                    // only the first identity and the first round get the full mutation list in the quick tier
                    if k > 0 && !cx.thorough && !(ii == 0 || (ii == 2 && k <= 2)) { continue; }
                    let mut n = genuine.clone();
                    let rehash = |n: &mut Node| { n.id = sha256(&node_msg(n)); };
                    let what: String = match k {
                        0 => "genuine".into(),
                        1 => { let p = cx.rng.below(32) as usize; n.id[p] ^= 1 << cx.rng.below(8); format!("node id byte {} flipped", p) }
                        2 => { let p = cx.rng.below(n.ip.len() as u64) as usize; n.ip[p] ^= 1 << cx.rng.below(8); "ip changed, id kept".into() }
                        3 => { let p = cx.rng.below(n.ip.len() as u64) as usize; n.ip[p] ^= 1 << cx.rng.below(8); rehash(&mut n); "ip changed, id recomputed".into() }
                        4 => { let b = cx.rng.below((PUB * 8) as u64) as usize; n.pk = flip(&n.pk, b); rehash(&mut n); format!("key bit {} flipped, id recomputed", b) }
                        5 => { n.pk = other.pk.clone(); "another identity's key, id kept".into() }
                        6 => { n.pk = other.pk.clone(); rehash(&mut n); "another identity's key, id recomputed".into() }
                        7 => { n.salt[0] ^= 1; rehash(&mut n); "salt changed, id recomputed".into() }
                        8 => { n.salt.clear(); rehash(&mut n); "salt emptied, id recomputed".into() }
                        9 => { n.salt.push(0); rehash(&mut n); "salt extended, id recomputed".into() }
                        10 => { n.ts += 1; rehash(&mut n); "timestamp+1, id recomputed".into() }
                        11 => { n.ts -= 1; rehash(&mut n); "timestamp-1, id recomputed".into() }
                        12 => { n.ts = n.ts.swap_bytes(); rehash(&mut n); "timestamp byte-swapped, id recomputed".into() }
                        13 => { let b = cx.rng.below((SIGL * 8) as u64) as usize; n.sig = flip(&n.sig, b); format!("signature bit {} flipped", b) }
                        14 => { n.sig.pop(); "signature one byte short".into() }
                        15 => { n.sig.push(0); "signature one byte long".into() }
                        16 => { n.sig = other_node_sig.clone(); "signature by another identity over the same bytes".into() }
                        17 => { n.pk.pop(); rehash(&mut n); "key one byte short, id recomputed".into() }
                        18 => { n.ts += 1; "timestamp+1, id kept".into() }
                        _ => { n.sig = id.sign(&node_msg(&n)); "genuine fields, re-signed by the owner (second valid signature)".into() }
                    };
                    let is_genuine = k == 0 || k == 19;
                    let mut t = Tabs::new();
                    let msg = node_msg(&n);
                    t.hash(&msg);
                    t.verify(&n.pk, &msg, &n.sig);
                    let obs = node_verify(&n);
                    let sh = &mut cx.sh;
                    let (tpk, tsig, th, tv) = (sh.term(&n.pk), sh.term(&n.sig), t.coq_h(sh), t.coq_v(sh));
                    let term = format!("CIp {} (mkNode {} {} {} {} {} {}) {} {} {}", coq_bool(is_genuine), coq_bytes(&n.id), coq_bytes(&n.ip), tpk, tsig, n.ts, coq_bytes(&n.salt), th, tv, obs.coq());
                    cx.sum.count(&format!("ip:{}:{:?}", if is_genuine { "genuine" } else { "altered" }, obs));
                    let tags = if is_genuine { id.tags() } else { vec![] };
                    cx.push("ipnode", term, json!({"family": if v6 { "IPv6NodeID" } else { "IPv4NodeID" }, "signer": format!("id{} ({})", ii, id.how), "round": round, "alteration": what,
                        "ip": hex::encode(&n.ip), "salt": hex::encode(&n.salt), "timestamp_secs": n.ts, "node_id": hex::encode(&n.id), "verify": format!("{:?}", obs)}), &tags);
                }
            }
        }
    }
}

// ------------------------------------------------------------------ G5 update packages
fn wait_for_quiet_second() -> u64 {
    loop {
        let d = std::time::SystemTime::now().duration_since(std::time::UNIX_EPOCH).unwrap();
        if d.subsec_millis() < 800 { return d.as_secs(); }
        std::thread::sleep(std::time::Duration::from_millis(1000 - d.subsec_millis() as u64 + 5));
    }
}
#[derive(Clone)]
struct PK { id: String, text: String, from_off: Option<i64>, until_off: Option<i64> } // offsets relative to "now"; None = 0 (unset)
fn coq_keys(keys: &[(PK, u64, u64)], names: &mut Shards) -> String {
    let v: Vec<String> = keys.iter().map(|(k, f, u)| format!("(mkPinned {} {} {} {})", coq_bytes(k.id.as_bytes()), names.term(k.text.as_bytes()), f, u)).collect();
    coq_list(v)
}
fn g_upd(cx: &mut Cx, ids: &[Id], rt: &tokio::runtime::Runtime) {
    let dir = tempfile::tempdir().expect("tempdir");
    let rounds = if cx.thorough { 5 } else { 1 };
    let pkt: Vec<String> = ids.iter().map(|i| b64(&i.pk)).collect();
    for round in 0..rounds {
        for (ii, id) in ids.iter().enumerate() {
            if !cx.thorough && ii == 3 { continue; }
            let clen = cx.rng.range(1, 40) as usize;
            let contents = cx.rng.bytes(clen);
            let sig = id.sign(&contents);
            let sigt = b64(&sig);
            let other = (ii + 1) % ids.len();
            let sum_ok = SignatureVerifier::calculate_checksum(&contents);
            let mut wrong_sum = sum_ok.clone().into_bytes(); wrong_sum[5] = if wrong_sum[5] == b'0' { b'1' } else { b'0' };
            let wrong_sum = String::from_utf8(wrong_sum).unwrap();
            let me = format!("key-{}", ii);
            let plain = |i: usize| PK { id: format!("key-{}", i), text: pkt[i].clone(), from_off: None, until_off: None };
            // (description, keys, key id named, message/contents, signature text, expected checksum (None = verify_signature only), genuine)
            struct Sc { what: String, keys: Vec<PK>, kid: String, msg: Vec<u8>, sig: String, sum: Option<String>, genuine: bool, window: bool }
            let mut scs: Vec<Sc> = vec![];
            let base_keys = vec![plain(other), plain(ii)];
            let mut add = |what: &str, keys: Vec<PK>, kid: &str, msg: &[u8], sig: &str, sum: Option<&str>, genuine: bool, window: bool| {
                scs.push(Sc { what: what.into(), keys, kid: kid.into(), msg: msg.to_vec(), sig: sig.into(), sum: sum.map(|s| s.into()), genuine, window });
            };
            add("valid, no window", base_keys.clone(), &me, &contents, &sigt, None, true, false);
            add("valid file, no window", base_keys.clone(), &me, &contents, &sigt, Some(&sum_ok), true, false);
            add("valid file, upper-case checksum", base_keys.clone(), &me, &contents, &sigt, Some(&sum_ok.to_uppercase()), true, false);
            add("wrong checksum", base_keys.clone(), &me, &contents, &sigt, Some(&wrong_sum), false, false);
            add("empty checksum", base_keys.clone(), &me, &contents, &sigt, Some(""), false, false);
            add("checksum one character short", base_keys.clone(), &me, &contents, &sigt, Some(&sum_ok[..63]), false, false);
            let mut altered = contents.clone(); let p = cx.rng.below(altered.len() as u64) as usize; altered[p] ^= 1 << cx.rng.below(8);
            add("file byte altered after the checksum was published", base_keys.clone(), &me, &altered, &sigt, Some(&sum_ok), false, false);
            add("file byte altered, checksum recomputed by the attacker", base_keys.clone(), &me, &altered, &sigt, Some(&SignatureVerifier::calculate_checksum(&altered)), false, false);
            add("message bit flipped", base_keys.clone(), &me, &altered, &sigt, None, false, false);
            add("key id not pinned", base_keys.clone(), "key-9", &contents, &sigt, None, false, false);
            add("key id not pinned (file)", base_keys.clone(), "key-9", &contents, &sigt, Some(&sum_ok), false, false);
            add("names another pinned key", base_keys.clone(), &format!("key-{}", other), &contents, &sigt, Some(&sum_ok), false, false);
            add("signer's key not pinned at all", vec![plain(other)], &me, &contents, &sigt, Some(&sum_ok), false, false);
            add("signature by an unpinned identity under a pinned id", base_keys.clone(), &me, &contents, &b64(&ids[(ii + 2) % ids.len()].sign(&contents)), Some(&sum_ok), false, false);
            add("signature text is not base64", base_keys.clone(), &me, &contents, "!!!not base64!!!", Some(&sum_ok), false, false);
            add("signature one byte short", base_keys.clone(), &me, &contents, &b64(&sig[..SIGL - 1]), None, false, false);
            let fb = cx.rng.below((SIGL * 8) as u64) as usize;
            add("signature bit flipped", base_keys.clone(), &me, &contents, &b64(&flip(&sig, fb)), Some(&sum_ok), false, false);
            add("pinned key text is not base64", vec![PK { id: me.clone(), text: "***".into(), from_off: None, until_off: None }], &me, &contents, &sigt, None, false, false);
            add("pinned key one byte short", vec![PK { id: me.clone(), text: b64(&id.pk[..PUB - 1]), from_off: None, until_off: None }], &me, &contents, &sigt, None, false, false);
            add("same id pinned twice, the later entry is the signer", vec![PK { id: me.clone(), text: pkt[other].clone(), from_off: None, until_off: None }, plain(ii)], &me, &contents, &sigt, Some(&sum_ok), true, false);
            add("same id pinned twice, the later entry is another key", vec![plain(ii), PK { id: me.clone(), text: pkt[other].clone(), from_off: None, until_off: None }], &me, &contents, &sigt, Some(&sum_ok), false, false);
            // validity window edges (seconds relative to now)
            for (f, u, ok) in [(Some(-1), None, true), (Some(0), None, true), (Some(1), None, false), (Some(2), None, false),
                               (None, Some(-1), false), (None, Some(0), false), (None, Some(1), true), (None, Some(2), true),
                               (Some(0), Some(1), true), (Some(-5), Some(0), false), (Some(1), Some(5), false), (Some(-3600), Some(3600), true)] {
                if !cx.thorough && ii > 0 && !matches!((f, u), (Some(0), None) | (Some(1), None) | (None, Some(0)) | (None, Some(1))) { continue; }
                let k = PK { id: me.clone(), text: pkt[ii].clone(), from_off: f, until_off: u };
                add(&format!("window valid_from=now{:+?} valid_until=now{:+?}", f, u), vec![plain(other), k.clone()], &me, &contents, &sigt, None, ok, true);
                if ii == 0 || cx.thorough { add(&format!("file, window valid_from=now{:+?} valid_until=now{:+?}", f, u), vec![plain(other), k], &me, &contents, &sigt, Some(&sum_ok), ok, true); }
            }
            for sc in scs {
                let mut attempt = 0;
                loop {
                    attempt += 1;
                    let now = if sc.window { wait_for_quiet_second() } else { now_secs() };
                    let keys: Vec<(PK, u64, u64)> = sc.keys.iter().map(|k| (k.clone(), k.from_off.map(|o| (now as i64 + o) as u64).unwrap_or(0), k.until_off.map(|o| (now as i64 + o) as u64).unwrap_or(0))).collect();
                    // all but the last through new(), the last through add_key()
                    let mk = |k: &(PK, u64, u64)| { let mut p = PinnedKey::new(k.0.id.clone(), k.0.text.clone()); p.valid_from = k.1; p.valid_until = k.2; p };
                    let mut ver = SignatureVerifier::new(keys[..keys.len() - 1].iter().map(mk).collect());
                    ver.add_key(mk(&keys[keys.len() - 1]));
                    let path = dir.path().join("artifact.bin");
                    std::fs::write(&path, &sc.msg).expect("write artifact");
                    let t0 = now_secs();
                    let (term_obs, obs_text, unexpected): (String, String, bool) = match &sc.sum {
                        None => match ver.verify_signature(&sc.kid, &sc.msg, &sc.sig) {
                            Ok(b) => (format!("(SOk {})", coq_bool(b)), format!("Ok({})", b), false),
                            Err(UpgradeError::NoValidKey(_)) => ("SNoValidKey".into(), "Err(NoValidKey)".into(), false),
                            Err(UpgradeError::SignatureVerification(_)) => ("SSigVer".into(), "Err(SignatureVerification)".into(), false),
                            Err(e) => ("SSigVer".into(), format!("Err({})", e), true),
                        },
                        Some(sum) => match rt.block_on(ver.verify_file(&path, sum, &sc.kid, &sc.sig)) {
                            Ok(()) => ("UAccept".into(), "Ok".into(), false),
                            Err(UpgradeError::ChecksumMismatch { .. }) => ("UChecksum".into(), "Err(ChecksumMismatch)".into(), false),
                            Err(UpgradeError::NoValidKey(_)) => ("UNoValidKey".into(), "Err(NoValidKey)".into(), false),
                            Err(UpgradeError::SignatureVerification(_)) => ("USigVer".into(), "Err(SignatureVerification)".into(), false),
                            Err(e) => ("USigVer".into(), format!("Err({})", e), true),
                        },
                    };
                    let t1 = now_secs();
                    if sc.window && (t0 != now || t1 != now) {
                        if attempt < 6 { continue; }
                        cx.sum.discarded_ambiguous += 1; break;
                    }
                    let mut t = Tabs::new();
                    let sdec: Option<Vec<u8>> = if sc.sig.starts_with('!') { None } else {
                        // the harness encoded it itself: decode = the bytes it encoded
                        Some(if sc.sig == sigt { sig.clone() } else { unb64(&sc.sig) })
                    };
                    t.b64(&sc.sig, sdec.as_deref());
                    for k in &keys {
                        let kd: Option<Vec<u8>> = if k.0.text.starts_with('*') { None } else { Some(unb64(&k.0.text)) };
                        t.b64(&k.0.text, kd.as_deref());
                        if let (Some(kd), Some(sd)) = (&kd, &sdec) { t.verify(kd, &sc.msg, sd); }
                    }
                    if sc.sum.is_some() { t.hash(&sc.msg); }
                    let sh = &mut cx.sh;
                    let (tk, tsg, tb, th, tv) = (coq_keys(&keys, sh), sh.term(sc.sig.as_bytes()), t.coq_b(sh), t.coq_h(sh), t.coq_v(sh));
                    let term = match &sc.sum {
                        None => format!("CUpdSig {} {} {} {} {} {} {} {} {}", coq_bool(sc.genuine), tk, now, coq_bytes(sc.kid.as_bytes()), coq_bytes(&sc.msg), tsg, tb, tv, term_obs),
                        Some(sum) => format!("CUpdFile {} {} {} {} {} {} {} {} {} {} {}", coq_bool(sc.genuine), tk, now, coq_bytes(&sc.msg), coq_bytes(sum.as_bytes()), coq_bytes(sc.kid.as_bytes()), tsg, tb, th, tv, term_obs),
                    };
                    let tags = if sc.genuine { id.tags() } else { vec![] };
                    cx.sum.count(&format!("upd:{}:{}", if sc.sum.is_some() { "verify_file" } else { "verify_signature" }, obs_text));
                    if sc.window { cx.sum.count("upd:window-edge"); }
                    let cid = cx.push("update", term, json!({"entry": if sc.sum.is_some() { "SignatureVerifier::verify_file" } else { "SignatureVerifier::verify_signature" },
                        "signer": format!("id{} ({})", ii, id.how), "round": round, "scenario": sc.what, "now": now, "key_id": sc.kid, "contents": hex::encode(&sc.msg), "expected_sha256": sc.sum,
                        "pinned": keys.iter().map(|k| json!({"key_id": k.0.id, "valid_from": k.1, "valid_until": k.2, "public_key": format!("{}...", &k.0.text[..k.0.text.len().min(16)])})).collect::<Vec<_>>(), "result": obs_text}), &tags);
                    if unexpected { cx.sum.violation(cid, "update verifier returned an error kind outside {ChecksumMismatch, NoValidKey, SignatureVerification}", &[], json!({"result": obs_text})); }
                    break;
                }
            }
        }
    }
}
fn unb64(t: &str) -> Vec<u8> {
    let mut out = vec![]; let mut acc = 0u32; let mut n = 0;
    for c in t.bytes() {
        let v = match c { b'A'..=b'Z' => c - b'A', b'a'..=b'z' => c - b'a' + 26, b'0'..=b'9' => c - b'0' + 52, b'+' => 62, b'/' => 63, _ => continue };
        acc = (acc << 6) | v as u32; n += 6;
        if n >= 8 { n -= 8; out.push((acc >> n) as u8); acc &= (1 << n) - 1; }
    }
    out
}

// ------------------------------------------------------------------ G6 write authorisation
#[derive(Clone)]
enum Tree { Single(Vec<u8>), Delegated(Vec<Vec<u8>>), Threshold(usize, usize, Vec<Vec<u8>>), Composite(bool, Vec<Tree>) }
impl Tree {
    fn build(&self) -> Box<dyn WriteAuth> {
        match self {
            Tree::Single(k) => Box::new(SingleWriteAuth::new(PubKey::new(k.clone()))),
            Tree::Delegated(ks) => Box::new(DelegatedWriteAuth::new(ks.iter().map(|k| PubKey::new(k.clone())).collect())),
            Tree::Threshold(t, n, ks) => Box::new(ThresholdWriteAuth::new(*t, *n, ks.iter().map(|k| PubKey::new(k.clone())).collect()).expect("threshold auth")),
            Tree::Composite(all, l) => { let v: Vec<Box<dyn WriteAuth>> = l.iter().map(|x| x.build()).collect(); if *all { Box::new(CompositeWriteAuth::all(v)) } else { Box::new(CompositeWriteAuth::any(v)) } }
        }
    }
    fn coq(&self, n: &mut Shards) -> String {
        match self {
            Tree::Single(k) => format!("(WSingle {})", n.term(k)),
            Tree::Delegated(ks) => { let v: Vec<String> = ks.iter().map(|k| n.term(k)).collect(); format!("(WDelegated {})", coq_list(v)) }
            Tree::Threshold(t, tot, ks) => { let v: Vec<String> = ks.iter().map(|k| n.term(k)).collect(); format!("(WThreshold {} {} {})", t, tot, coq_list(v)) }
            Tree::Composite(all, l) => { let v: Vec<String> = l.iter().map(|x| x.coq(n)).collect(); format!("(WComposite {} {})", coq_bool(*all), coq_list(v)) }
        }
    }
    fn keys(&self, out: &mut Vec<Vec<u8>>) {
        match self { Tree::Single(k) => out.push(k.clone()), Tree::Delegated(ks) | Tree::Threshold(_, _, ks) => out.extend(ks.iter().cloned()), Tree::Composite(_, l) => for x in l { x.keys(out) } }
    }
    fn show(&self, ids: &[Id]) -> String {
        let kn = |k: &Vec<u8>| ids.iter().position(|i| &i.pk == k).map(|p| format!("id{}", p)).unwrap_or_else(|| format!("<{} bytes>", k.len()));
        match self {
            Tree::Single(k) => format!("Single({})", kn(k)),
            Tree::Delegated(ks) => format!("Delegated[{}]", ks.iter().map(kn).collect::<Vec<_>>().join(",")),
            Tree::Threshold(t, n, ks) => format!("Threshold({} of {})[{}]", t, n, ks.iter().map(kn).collect::<Vec<_>>().join(",")),
            Tree::Composite(all, l) => format!("{}[{}]", if *all { "All" } else { "Any" }, l.iter().map(|x| x.show(ids)).collect::<Vec<_>>().join(", ")),
        }
    }
    /// The tree's verdict from the real leaf verdicts, with the threshold nodes decided either by the
    /// count-only placeholder (`spec = false`) or by "t distinct listed keys have a valid signature among
    /// those presented" (`spec = true`).  Used ONLY to tag the recorded finding: a case is exempt when the
    /// two rules differ in acceptance and the implementation did exactly what the placeholder predicts.
    fn eval(&self, rec: &[u8], sigs: &[Vec<u8>], spec: bool) -> V {
        let leaf = |k: &Vec<u8>, s: &Vec<u8>| -> V { if k.len() != PUB { V::E } else if s.len() != SIGL { V::F } else { vreal(k, rec, s).unwrap_or(V::E) } };
        match self {
            Tree::Single(k) => match sigs.first() { None => V::F, Some(s) => leaf(k, s) },
            Tree::Delegated(ks) => match sigs.first() {
                None => V::F,
                Some(s) => if ks.is_empty() || s.len() != SIGL { V::F } else if ks.iter().any(|k| k.len() == PUB && leaf(k, s) == V::T) { V::T } else { V::F },
            },
            Tree::Threshold(t, n, ks) => {
                if !spec { return if sigs.len() >= *t && sigs.len() <= *n { V::T } else { V::F }; }
                let mut distinct: Vec<&Vec<u8>> = vec![];
                for k in ks { if !distinct.contains(&k) { distinct.push(k); } }
                let valid = distinct.iter().filter(|k| k.len() == PUB && sigs.iter().any(|s| s.len() == SIGL && vreal(k, rec, s) == Some(V::T))).count();
                if valid >= *t { V::T } else { V::F }
            }
            Tree::Composite(all, l) => {
                for x in l {
                    match (x.eval(rec, sigs, spec), *all) {
                        (V::E, _) => return V::E,
                        (V::F, true) => return V::F,
                        (V::T, false) => return V::T,
                        _ => {}
                    }
                }
                if *all { V::T } else { V::F }
            }
        }
    }
}
fn auth_case(cx: &mut Cx, rt: &tokio::runtime::Runtime, ids: &[Id], what: &str, tree: &Tree, rec: &[u8], sigs: &[Vec<u8>]) {
    let a = tree.build();
    let sv: Vec<Sig> = sigs.iter().map(|s| Sig::new(s.clone())).collect();
    let obs = V::of(rt.block_on(a.verify(rec, &sv)));
    let mut t = Tabs::new();
    let mut keys = vec![]; tree.keys(&mut keys);
    for k in &keys { for s in sigs { t.verify(k, rec, s); } }
    let sh = &mut cx.sh;
    let ts: Vec<String> = sigs.iter().map(|s| sh.term(s)).collect();
    let (tt, tv) = (tree.coq(sh), t.coq_v(sh));
    let term = format!("CAuth {} {} {} {} {}", tt, coq_bytes(rec), coq_list(ts), tv, obs.coq());
    let (by_code, by_spec) = (tree.eval(rec, sigs, false), tree.eval(rec, sigs, true));
    let gap = (by_code == V::T) != (by_spec == V::T) && obs == by_code;
    let tags: Vec<&str> = if gap { vec![TAG_THR] } else { vec![] };
    cx.sum.count(&format!("auth:{}:{:?}", a.auth_type(), obs));
    if gap { cx.sum.count("auth:threshold-placeholder-differs-from-spec"); }
    cx.push("writeauth", term, json!({"scenario": what, "auth": tree.show(ids), "record": hex::encode(rec),
        "signatures": sigs.iter().map(|s| format!("{} bytes", s.len())).collect::<Vec<_>>(), "verify": format!("{:?}", obs)}), &tags);
}
fn g_auth(cx: &mut Cx, ids: &[Id], rt: &tokio::runtime::Runtime) {
    // write authorisation is about the keys a record names; use the identities that verify (all four after the repair)
    let rec = cx.rng.bytes(12);
    let k: Vec<Vec<u8>> = ids.iter().map(|i| i.pk.clone()).collect();
    let s: Vec<Vec<u8>> = ids.iter().map(|i| i.sign(&rec)).collect();
    let usable: Vec<usize> = (0..ids.len()).filter(|&i| vreal(&k[i], &rec, &s[i]) == Some(V::T)).collect();
    if usable.len() < 2 { cx.sum.notes.push("fewer than two identities verify their own signatures: write-authorisation cases skipped".into()); return; }
    let (a, b) = (usable[0], usable[1]);
    let c = *usable.get(2).unwrap_or(&a);
    let other_rec = cx.rng.bytes(12);
    let s_other = ids[a].sign(&other_rec);
    let fb = cx.rng.below((SIGL * 8) as u64) as usize;
    let bad = flip(&s[a], fb);
    let junk64 = vec![1u8; 64];
    let junk64b = vec![2u8; 64];
    let short_key = vec![3u8; 32];
    let mut short_sig = s[a].clone(); short_sig.pop();
    let mut long_sig = s[a].clone(); long_sig.push(0);
    let single = |i: usize| Tree::Single(k[i].clone());
    let run = |cx: &mut Cx, what: &str, t: Tree, sigs: Vec<Vec<u8>>| auth_case(cx, rt, ids, what, &t, &rec, &sigs);
    // single
    run(cx, "single: owner's signature", single(a), vec![s[a].clone()]);
    run(cx, "single: valid signature second, junk first (only the first is looked at)", single(a), vec![junk64.clone(), s[a].clone()]);
    run(cx, "single: valid first, junk second", single(a), vec![s[a].clone(), junk64.clone()]);
    run(cx, "single: no signatures", single(a), vec![]);
    run(cx, "single: another identity's signature", single(a), vec![s[b].clone()]);
    run(cx, "single: signature of another record", single(a), vec![s_other.clone()]);
    run(cx, "single: signature bit flipped", single(a), vec![bad.clone()]);
    run(cx, "single: signature one byte short", single(a), vec![short_sig.clone()]);
    run(cx, "single: signature one byte long", single(a), vec![long_sig.clone()]);
    run(cx, "single: 32-byte key", Tree::Single(short_key.clone()), vec![s[a].clone()]);
    run(cx, "single: key bit flipped", Tree::Single(flip(&k[a], 9)), vec![s[a].clone()]);
    // delegated
    run(cx, "delegated: signer first in list", Tree::Delegated(vec![k[a].clone(), k[b].clone()]), vec![s[a].clone()]);
    run(cx, "delegated: signer last in list", Tree::Delegated(vec![k[b].clone(), k[c].clone(), k[a].clone()]), vec![s[a].clone()]);
    run(cx, "delegated: signer not in list", Tree::Delegated(vec![k[b].clone()]), vec![s[a].clone()]);
    run(cx, "delegated: empty list", Tree::Delegated(vec![]), vec![s[a].clone()]);
    run(cx, "delegated: malformed key before the signer's", Tree::Delegated(vec![short_key.clone(), k[a].clone()]), vec![s[a].clone()]);
    run(cx, "delegated: only a malformed key", Tree::Delegated(vec![short_key.clone()]), vec![s[a].clone()]);
    run(cx, "delegated: no signatures", Tree::Delegated(vec![k[a].clone()]), vec![]);
    run(cx, "delegated: valid signature second", Tree::Delegated(vec![k[a].clone()]), vec![junk64.clone(), s[a].clone()]);
    run(cx, "delegated: signature one byte short", Tree::Delegated(vec![k[a].clone()]), vec![short_sig.clone()]);
    run(cx, "delegated: signature of another record", Tree::Delegated(vec![k[a].clone(), k[b].clone()]), vec![s_other.clone()]);
    run(cx, "delegated: duplicate key added twice", Tree::Delegated(vec![k[a].clone(), k[a].clone()]), vec![s[a].clone()]);
    // threshold 2 of 3
    let thr = |t: usize, n: usize, ks: Vec<Vec<u8>>| Tree::Threshold(t, n, ks);
    let k3 = vec![k[a].clone(), k[b].clone(), k[c].clone()];
    run(cx, "threshold 2/3: two distinct valid signers", thr(2, 3, k3.clone()), vec![s[a].clone(), s[b].clone()]);
    run(cx, "threshold 2/3: one valid signer and 64 junk bytes", thr(2, 3, k3.clone()), vec![s[a].clone(), junk64.clone()]);
    run(cx, "threshold 2/3: two 64-byte junk strings (the repository test's input)", thr(2, 3, vec![vec![1; 32], vec![2; 32], vec![3; 32]]), vec![junk64.clone(), junk64b.clone()]);
    run(cx, "threshold 2/3: the same signer twice", thr(2, 3, k3.clone()), vec![s[a].clone(), ids[a].sign(&rec)]);
    run(cx, "threshold 2/3: one signature", thr(2, 3, k3.clone()), vec![s[a].clone()]);
    run(cx, "threshold 2/3: no signatures", thr(2, 3, k3.clone()), vec![]);
    run(cx, "threshold 2/3: four signatures, two of them valid and distinct", thr(2, 3, k3.clone()), vec![s[a].clone(), s[b].clone(), junk64.clone(), junk64b.clone()]);
    run(cx, "threshold 2/3: two valid signatures of another record", thr(2, 3, k3.clone()), vec![s_other.clone(), ids[b].sign(&other_rec)]);
    run(cx, "threshold 1/1: the signer", thr(1, 1, vec![k[a].clone()]), vec![s[a].clone()]);
    run(cx, "threshold 1/1: a stranger's signature", thr(1, 1, vec![k[a].clone()]), vec![s[b].clone()]);
    run(cx, "threshold 3/3: three valid signers", thr(3, 3, k3.clone()), vec![s[a].clone(), s[b].clone(), s[c].clone()]);
    // composite
    let all = |l: Vec<Tree>| Tree::Composite(true, l);
    let any = |l: Vec<Tree>| Tree::Composite(false, l);
    run(cx, "all[single a, single b] with a's signature", all(vec![single(a), single(b)]), vec![s[a].clone()]);
    run(cx, "any[single a, single b] with a's signature", any(vec![single(a), single(b)]), vec![s[a].clone()]);
    run(cx, "any[single b, single a] with a's signature", any(vec![single(b), single(a)]), vec![s[a].clone()]);
    run(cx, "any[single a, single b] with a stranger's signature", any(vec![single(a), single(b)]), vec![s[c].clone(), s[a].clone()]);
    run(cx, "all[single a, delegated{a,b}] with a's signature", all(vec![single(a), Tree::Delegated(vec![k[b].clone(), k[a].clone()])]), vec![s[a].clone()]);
    run(cx, "all[] (no members)", all(vec![]), vec![junk64.clone()]);
    run(cx, "any[] (no members)", any(vec![]), vec![s[a].clone()]);
    run(cx, "any[malformed single, single a]: the error comes first", any(vec![Tree::Single(short_key.clone()), single(a)]), vec![s[a].clone()]);
    run(cx, "any[single a, malformed single]: accepted before the error", any(vec![single(a), Tree::Single(short_key.clone())]), vec![s[a].clone()]);
    run(cx, "all[single b, malformed single]: refused before the error", all(vec![single(b), Tree::Single(short_key.clone())]), vec![s[a].clone()]);
    run(cx, "all[single a, malformed single]: error", all(vec![single(a), Tree::Single(short_key.clone())]), vec![s[a].clone()]);
    run(cx, "all[any[single b, single a], single a]", all(vec![any(vec![single(b), single(a)]), single(a)]), vec![s[a].clone()]);
    run(cx, "any[all[single a, single b], delegated{b}]", any(vec![all(vec![single(a), single(b)]), Tree::Delegated(vec![k[b].clone()])]), vec![s[a].clone()]);
    run(cx, "all[single a, threshold 1/1{a}] valid", all(vec![single(a), thr(1, 1, vec![k[a].clone()])]), vec![s[a].clone()]);
    run(cx, "any[single b, threshold 2/3] with junk", any(vec![single(b), thr(2, 3, k3.clone())]), vec![junk64.clone(), junk64b.clone()]);
    // random trees
    let nrand = if cx.thorough { 400 } else { 40 };
    let pool_sigs: Vec<Vec<u8>> = vec![s[a].clone(), s[b].clone(), s[c].clone(), s_other.clone(), bad.clone(), junk64.clone(), short_sig.clone()];
    let pool_keys: Vec<Vec<u8>> = vec![k[a].clone(), k[b].clone(), k[c].clone(), short_key.clone(), flip(&k[a], 100)];
    for i in 0..nrand {
        let mut r = cx.rng.fork();
        fn gen(r: &mut Rng, depth: u32, pk: &[Vec<u8>]) -> Tree {
            let pickk = |r: &mut Rng| { let i = if r.chance(4, 5) { r.below(3) } else { r.below(pk.len() as u64) }; pk[i as usize].clone() };
            match r.below(if depth == 0 { 3 } else { 5 }) {
                0 => Tree::Single(pickk(r)),
                1 => { let n = r.below(4); Tree::Delegated((0..n).map(|_| pickk(r)).collect()) }
                2 => { let n = r.range(1, 3) as usize; let t = r.range(1, n as u64) as usize; Tree::Threshold(t, n, (0..n).map(|_| pickk(r)).collect()) }
                _ => { let n = r.below(4); let all = r.chance(1, 2); Tree::Composite(all, (0..n).map(|_| gen(r, depth - 1, pk)).collect()) }
            }
        }
        let tree = gen(&mut r, 2, &pool_keys);
        let ns = r.below(4);
        let sigs: Vec<Vec<u8>> = (0..ns).map(|_| pool_sigs[r.below(pool_sigs.len() as u64) as usize].clone()).collect();
        run(cx, &format!("random tree {}", i), tree, sigs);
    }
    // constructor
    for t in 0..5u64 { for total in 0..4u64 { for nk in [total.saturating_sub(1), total, total + 1] {
        let ks: Vec<PubKey> = (0..nk).map(|i| PubKey::new(vec![i as u8])).collect();
        let ok = ThresholdWriteAuth::new(t as usize, total as usize, ks).is_ok();
        cx.push("threshold-new", format!("CThrNew {} {} {} {}", t, total, coq_list((0..nk).map(|i| format!("[{}]", i))), coq_bool(ok)), json!({"threshold": t, "total": total, "keys": nk, "constructed": ok}), &[]);
    } } }
}

fn main() {
    let args = Args::parse();
    install_trace_sink();
    let mut sum = Summary::default();
    if cfg!(debug_assertions) {
        sum.violation(0, "harness was built with debug assertions: the keyless debug shim would be tested instead of ML-DSA (META profile must be release)", &[], json!({}));
        sum.write(&args.out);
        return;
    }
    let rt = tokio::runtime::Builder::new_current_thread().enable_all().build().expect("runtime");
    let rng = Rng::new(args.seed);
    // first the identities: their keys become named blobs of every case file
    let mut cx = Cx { w: CaseWriter::new(&args.out, "cases_a", "From SV Require Import Lib.Base Model.Sig.\nLocal Open Scope N_scope.", "c08case", "check_case", "prop_case", 400),
        sh: Shards::new(&args.out), glue: false, sum, next: 1, rng, thorough: args.thorough() };
    g_len(&mut cx);
    let ids = g_ident(&mut cx);
    g_prim(&mut cx, &ids);
    cx.w.flush();
    // the identities' keys (and their base64 text) get fixed names in the glue case files
    for (i, id) in ids.iter().enumerate() {
        cx.sh.known.push((format!("K{}", i), id.pk.clone()));
        cx.sh.known.push((format!("B{}", i), b64(&id.pk).into_bytes()));
    }
    cx.glue = true;
    g_ip(&mut cx, &ids);
    g_upd(&mut cx, &ids, &rt);
    g_auth(&mut cx, &ids, &rt);
    cx.sh.flush();
    let mut sum = cx.sum;
    sum.distinct_nontrivial = sum.evaluations;
    sum.rule = "one case = one call of a real entry point (sign/verify of one identity, one tampered verify, one sweep, one node-id / update / write-auth verification) on distinct inputs; sweeps count once".into();
    sum.notes.push(format!("identities used by the glue cases: {}", ids.iter().enumerate().map(|(i, d)| format!("id{}={}", i, d.how)).collect::<Vec<_>>().join(", ")));
    sum.write(&args.out);
}
