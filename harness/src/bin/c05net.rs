//! C05, dispatcher level: hostile frames injected into the REAL receive loop of a running node
//! (arbitrary authenticated sender id) vs Model/Wire.v `dispatch` (via Model/WireNet.v).
//! Also checks directly that the node keeps working and that nothing of a rejected frame is retained.
use saorsa_core::network::P2PEvent;
use serde::{Deserialize, Serialize};
use serde_json::json;
use std::net::SocketAddr;
use std::sync::Arc;
use std::time::{Duration, Instant};
use vh::net::*;
use vh::*;

const HEADER: &str = "From SV Require Import Lib.Base Model.Postcard Model.Wire Model.WireNet.\nLocal Open Scope N_scope.";

#[derive(Serialize, Deserialize)]
struct Envelope { message_id: String, is_response: bool, payload: Vec<u8> }

fn blob(b: &[u8]) -> String {
    // prefix ++ fill^n with an empty fill part; long lists are written in chunks (Coq's list notation is slow on long literals)
    let chunks: Vec<String> = b.chunks(200).map(|c| coq_list(c.iter().map(|x| x.to_string()))).collect();
    let body = if chunks.is_empty() { "[]".to_string() } else { chunks.join(" ++ ") };
    format!("(mkBlob ({}) 0 0)", body)
}
fn bytes_lit(b: &[u8]) -> String { coq_list(b.iter().map(|x| x.to_string())) }

async fn run_world(wi: u64, mut rng: Rng) -> anyhow::Result<Summary> {
    let mut sum = Summary::default();
    let net = SimNet::new();
    let maddr: SocketAddr = "10.250.0.1:9000".parse()?;
    let m = spawn_node(&net, &format!("c05m{}x{}", wi, rng.below(1 << 30)), maddr, Duration::from_millis(4000), 8).await?;
    // three scripted peers: silent for everything (the harness injects what they "send")
    let mut peers = vec![];
    for i in 0..3 {
        let id = hex::encode(rng.bytes(32));
        let addr = format!("10.{}.{}.1:9000", 30 + i, 1 + i);
        let beh: Behaviour = Arc::new(move |_me, msg| match msg.payload {
            saorsa_core::dht_network_manager::DhtNetworkOperation::Leave => Reply::Result(saorsa_core::dht_network_manager::DhtNetworkResult::LeaveSuccess),
            _ => Reply::Silent });
        net.add_scripted(&id, &addr, beh);
        m.transport.connect_peer(&addr).await.map_err(|e| anyhow::anyhow!("{e}"))?;
        peers.push(id);
    }
    // a stored value and two pending /rr/ requests (to peers 0 and 1)
    let key = [7u8; 32];
    m.manager.store_local(key, vec![1, 2, 3]).await.map_err(|e| anyhow::anyhow!("{e}"))?;
    let mut pending: Vec<(String, String, tokio::task::JoinHandle<Result<Vec<u8>, String>>)> = vec![];
    for i in 0..2 {
        let before = net.rr_ids.lock().unwrap().len();
        let tr = m.transport.clone(); let pid = peers[i].clone();
        let task = tokio::spawn(async move { tr.send_request(&pid, "vp", vec![9], Duration::from_secs(120)).await.map(|r| r.data).map_err(|e| e.to_string()) });
        let ok = wait_until(|| { let n = net.clone(); async move { n.rr_ids.lock().unwrap().len() > before } }, Duration::from_secs(5)).await;
        if !ok { anyhow::bail!("rr request never reached the wire"); }
        let uuid = net.rr_ids.lock().unwrap()[before].clone();
        pending.push((uuid, peers[i].clone(), task));
    }
    let mut events = m.transport.subscribe_events();
    let stranger = hex::encode(rng.bytes(32));
    let nframes = 40;
    let mut cid = 0u64;
    for _ in 0..nframes {
        while events.try_recv().is_ok() {}
        let now0 = now_secs();
        // sender: a connected peer or a stranger
        let src = match rng.below(4) { 0 => peers[0].clone(), 1 => peers[1].clone(), 2 => peers[2].clone(), _ => stranger.clone() };
        // timestamp classes (never within 1 s of a window edge: the clock may tick)
        let ts = match rng.below(10) { 0 => now0 - 298, 1 => now0 - 303, 2 => now0 + 28, 3 => now0 + 33, 4 => 0, 5 => u64::MAX, _ => now0 };
        let topic = match rng.below(6) { 0 | 1 => "/rr/vp".to_string(), 2 => "/rr/".to_string(), 3 => "/x/test".to_string(), 4 => "".to_string(), _ => format!("/gossip/{}{}", "t".repeat(rng.below(70) as usize), "é€".repeat(rng.range(1, 20) as usize)) };
        // payload
        let live: Vec<usize> = (0..pending.len()).filter(|&i| !pending[i].2.is_finished()).collect();
        let data: Vec<u8> = if topic.starts_with("/rr/") && rng.chance(4, 5) {
            let (idv, _right) = if !live.is_empty() && rng.chance(3, 4) { let i = live[rng.below(live.len() as u64) as usize]; (pending[i].0.clone(), pending[i].1.clone()) }
                                else if rng.chance(1, 3) {
                                    // long ids with multi-byte characters at every small offset class (log truncation, length limits)
                                    let pad = rng.range(0, 130) as usize;
                                    (format!("{}{}{}", "x".repeat(pad), ["é", "€", "𝄞", "日本"][rng.below(4) as usize].repeat(rng.range(1, 40) as usize), rng.below(10)), String::new())
                                }
                                else { (format!("guess-{}", rng.below(1000)), String::new()) };
            let plen = rng.below(6) as usize; let env = Envelope { message_id: idv, is_response: rng.chance(3, 4), payload: rng.bytes(plen) };
            let mut e = postcard::to_stdvec(&env)?;
            if rng.chance(1, 6) { let n = e.len(); e.truncate(rng.below(n as u64 + 1) as usize); }
            e
        } else { let n = rng.below(40) as usize; rng.bytes(n) };
        let claimed = match rng.below(3) { 0 => peers[0].clone(), 1 => "victim".to_string(), _ => src.clone() };
        let wire = Wire { protocol: topic, data, from: claimed, timestamp: ts };
        let mut bytes = postcard::to_stdvec(&wire)?;
        // whole-frame mutations
        match rng.below(12) {
            0 => { let n = bytes.len(); bytes.truncate(rng.below(n as u64 + 1) as usize); }
            1 => { let i = rng.below(bytes.len().max(1) as u64) as usize; if i < bytes.len() { bytes[i] ^= 1 << rng.below(8); } }
            2 => { bytes = b"keepalive".to_vec(); }
            3 => { bytes = b"keepalivE".to_vec(); }
            4 => { let n = rng.below(60) as usize; bytes = rng.bytes(n); }
            5 => { bytes.extend_from_slice(&[0xff, 0xff, 0xff, 0xff, 0x0f]); }
            _ => {}
        }
        let pend_lit = coq_list(pending.iter().filter(|p| !p.2.is_finished()).map(|p| format!("({}, {})", bytes_lit(p.0.as_bytes()), bytes_lit(p.1.as_bytes()))));
        m.transport.verif_inject_frame(&src, bytes.clone()).await;
        // drain: a sentinel event on a private topic from peer 2 marks the end of what was injected before it
        let mark = format!("/sentinel/{}", cid);
        let s = Wire { protocol: mark.clone(), data: vec![], from: "s".into(), timestamp: now_secs() };
        m.transport.verif_inject_frame(&peers[2], postcard::to_stdvec(&s)?).await;
        let mut seen: Vec<(String, String, Vec<u8>)> = vec![];
        let t0 = Instant::now();
        loop {
            match tokio::time::timeout(Duration::from_secs(5), events.recv()).await {
                Ok(Ok(P2PEvent::Message { topic, source, data })) => { if topic == mark { break; } seen.push((topic, source, data)); }
                Ok(Ok(_)) => {}
                Ok(Err(_)) => {}
                Err(_) => { sum.violation(cid, "dispatcher did not drain within 5 s after a hostile frame (stuck or panicked)", &[], json!({"frame_hex": hex::encode(&bytes)})); break; }
            }
            if t0.elapsed() > Duration::from_secs(10) { break; }
        }
        if now_secs() != now0 { sum.discarded_ambiguous += 1; continue; }
        // completed pending request?
        tokio::time::sleep(Duration::from_millis(3)).await;
        let mut delivered: Option<(String, Vec<u8>)> = None;
        for p in pending.iter_mut() {
            if p.2.is_finished() && p.0 != "" {
                if let Ok(Ok(d)) = (&mut p.2).await { delivered = Some((p.0.clone(), d)); }
                p.0 = String::new();
            }
        }
        let obs = if let Some((idv, d)) = &delivered { format!("NDelivered {} {}", bytes_lit(idv.as_bytes()), bytes_lit(d)) }
                  else if let Some((t, s2, d)) = seen.first() { format!("NEvent {} {} {}", bytes_lit(t.as_bytes()), bytes_lit(s2.as_bytes()), bytes_lit(d)) }
                  else { "NNothing".to_string() };
        if seen.len() > 1 { sum.violation(cid, "one frame surfaced more than one event", &[], json!(seen.len())); }
        let term = format!("mkN {} {} {} {} ({})", now0, pend_lit, bytes_lit(src.as_bytes()), blob(&bytes), obs);
        sum.count(if delivered.is_some() { "obs:delivered" } else if !seen.is_empty() { "obs:event" } else { "obs:nothing" });
        sum.cases.insert(cid.to_string(), json!({"term": term, "nontrivial": true, "desc": {"kind": "dispatcher", "world": wi, "src": &src[..8], "frame_hex": hex::encode(&bytes[..bytes.len().min(96)]), "frame_len": bytes.len(), "observed": obs.chars().take(120).collect::<String>()}}));
        cid += 1;
    }
    // a hostile peer answers the node's own FIND_VALUE with 4096 bytes: nothing over 512 bytes may enter its store
    {
        use saorsa_core::dht_network_manager::{DhtNetworkOperation as Op, DhtNetworkResult as Res};
        let hid = hex::encode(rng.bytes(32));
        let haddr = "10.200.200.1:9000";
        let beh: Behaviour = Arc::new(move |me, msg| match &msg.payload {
            Op::FindValue { key } | Op::Get { key } => Reply::Result(Res::ValueFound { key: *key, value: vec![0x5Au8; 4096], source: me.to_string() }),
            Op::FindNode { key } => Reply::Result(Res::NodesFound { key: *key, nodes: vec![] }),
            Op::Leave => Reply::Result(Res::LeaveSuccess),
            _ => Reply::Silent });
        net.add_scripted(&hid, haddr, beh);
        let _ = m.transport.connect_peer(haddr).await;
        let mg = m.manager.clone(); let hid2 = hid.clone();
        wait_until(|| { let mg = mg.clone(); let h = hid2.clone(); async move { mg.get_connected_peers().await.iter().any(|p| p.peer_id == h) } }, Duration::from_secs(3)).await;
        let mut hk = dht_key_of(&hid); hk[31] ^= 1;
        let _ = tokio::time::timeout(Duration::from_secs(30), m.manager.get(&hk)).await;
        let held = m.manager.get_local(&hk).await.ok().flatten();
        sum.count("hostile_oversize_value_probes");
        if held.as_ref().map(|v| v.len() > 512).unwrap_or(false) {
            sum.violation(cid, "a value over 512 bytes taken from a peer's FIND_VALUE reply entered the node's store", &[], json!({"held_len": held.map(|v| v.len())}));
        }
    }
    // the node still works and retained nothing
    let v = m.manager.get_local(&key).await.ok().flatten();
    if v != Some(vec![1, 2, 3]) { sum.violation(cid, "stored value changed by hostile frames", &[], json!(format!("{v:?}"))); }
    let live_expected = pending.iter().filter(|p| p.0 != "").count();
    let sz = m.transport.verif_active_requests_len().await;
    if sz != live_expected { sum.violation(cid, "pending /rr/ table size changed by rejected frames", &[], json!({"size": sz, "expected": live_expected})); }
    for p in pending.iter() { p.2.abort(); }
    let _ = tokio::time::timeout(Duration::from_secs(10), m.manager.stop()).await;
    let _ = tokio::time::timeout(Duration::from_secs(5), m.transport.stop()).await;
    Ok(sum)
}

fn main() {
    let args = Args::parse();
    install_trace_sink();
    let rt = tokio::runtime::Builder::new_multi_thread().worker_threads(8).enable_all().build().unwrap();
    let mut rng = Rng::new(args.seed ^ 0x0c05);
    let mut sum = Summary::default();
    sum.rule = "dispatcher level: frames injected into the real receive loop of a running node from connected peers and strangers: valid WireMessages (topics /rr/.., other, empty, non-ASCII) with timestamps at the window edges, /rr/ envelopes naming pending / guessed ids from the right or a wrong peer, claimed `from` fields, truncations, bit flips, keepalive look-alikes, random bytes, trailing junk".into();
    let mut w = CaseWriter::new(&args.out, "cases_c05net", HEADER, "ncase", "check_ncase", "prop_ncase", 60);
    let worlds = if args.thorough() { 100 } else { 8 };
    let mut id = 900000u64;
    let mut wi = 0;
    while wi < worlds {
        let futs: Vec<_> = (0..4usize.min(worlds - wi)).map(|k| run_world((wi + k) as u64, rng.fork())).collect();
        for o in rt.block_on(futures::future::join_all(futs)) {
            match o {
                Ok(local) => {
                    for (kn, nn) in local.distribution.iter() { sum.add(&format!("net:{kn}"), *nn); }
                    sum.direct_violations.extend(local.direct_violations.iter().cloned());
                    sum.discarded_ambiguous += local.discarded_ambiguous;
                    let mut ks: Vec<u64> = local.cases.keys().filter_map(|x| x.parse().ok()).collect(); ks.sort();
                    for kk in ks {
                        let v = &local.cases[&kk.to_string()];
                        w.push(id, v["term"].as_str().unwrap_or("").to_string());
                        sum.evaluations += 1; sum.distinct_nontrivial += 1;
                        sum.case(id, v["desc"].clone()); id += 1;
                    }
                }
                Err(e) => { sum.notes.push(format!("world failed: {e}")); sum.count("world_failed"); }
            }
        }
        wi += 4;
    }
    w.flush();
    // written under separate names so that the main C05 harness output in the same directory is kept
    let v = json!({"evaluations": sum.evaluations, "distinct_nontrivial": sum.distinct_nontrivial, "rule": sum.rule, "distribution": sum.distribution,
        "samples": sum.samples, "direct_violations": sum.direct_violations, "discarded_ambiguous": sum.discarded_ambiguous, "notes": sum.notes});
    std::fs::write(args.out.join("summary_extra.json"), serde_json::to_string_pretty(&v).unwrap()).unwrap();
    std::fs::write(args.out.join("cases_extra.json"), serde_json::to_string(&sum.cases).unwrap()).unwrap();
    std::process::exit(0);
}
